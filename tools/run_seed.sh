#!/bin/bash
# usage: tools/run_seed.sh /verif/seeded/<name> [property ...]
# Applies seeded/<name>/patch.diff to a scratch worktree of /repo's HEAD (so that nothing else that is
# using /repo is disturbed), runs the quick check of the given properties (default: the property in
# meta.json) against that tree, prints the VIOLATION lines, and removes the worktree.
# (The same can be done in /repo itself: git -C /repo apply patch.diff; /verif/check <ID> quick; git -C /repo checkout -- .)
set -u
dir=$(realpath "$1"); shift
props=("$@")
if [ ${#props[@]} -eq 0 ]; then
  props=($(python3 -c "import json,sys; print(json.load(open('$dir/meta.json'))['property'])"))
fi
wt=$(mktemp -d /tmp/seedrun.XXXXXX)
out=$(mktemp -d /tmp/seedout.XXXXXX)
git -C /repo worktree add -q --detach "$wt/repo" HEAD || exit 2
trap 'git -C /repo worktree remove --force "$wt/repo" 2>/dev/null; rm -rf "$wt" "$out"' EXIT
cd "$wt/repo" || exit 2
if ! git apply --check "$dir/patch.diff" 2>/dev/null; then echo "patch does not apply"; exit 2; fi
git apply "$dir/patch.diff"
GOFLAGS=-mod=mod GOPROXY=off go build ./... || { echo "does not build"; exit 2; }
cp /verif/known_findings.json "$out/"
rc=0
for p in "${props[@]}"; do
  res=$(VERIF_REPO="$wt/repo" VERIF_DIR="$out" /verif/check "$p" quick 2>&1)
  echo "$res" | grep -E "^(VIOLATION|KNOWN-FINDING|ERROR|property=)" | sed "s|$out|<out>|g" | cut -c1-420
  echo "$res" | grep -q "^VIOLATION" && rc=1
  if [ -n "${KEEP_REPLAYS:-}" ]; then mkdir -p "$KEEP_REPLAYS"; cp -r "$out/replays" "$KEEP_REPLAYS/" 2>/dev/null; fi
done
exit $rc
