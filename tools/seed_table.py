#!/usr/bin/env python3
"""Writes /verif/seeded/README.md from seeded/*/meta.json and result.json."""
import json, os, glob
rows = []
for d in sorted(glob.glob('/verif/seeded/*/')):
    n = os.path.basename(d.rstrip('/'))
    if n.startswith('_') or not os.path.exists(d + 'patch.diff'):
        continue
    m = json.load(open(d + 'meta.json')) if os.path.exists(d + 'meta.json') else {}
    r = json.load(open(d + 'result.json')) if os.path.exists(d + 'result.json') else {}
    obls = r.get('obligations', [])
    if obls:
        names = []
        for o in obls[:3]:
            s = o['obligation'].replace('tls.', '', 1)
            s += ' (replayed)' if o.get('failing_input_replayed') else ''
            names.append('`' + s + '`')
        caught = ', '.join(names) + (' …' if len(obls) > 3 else '')
    elif r.get('detected_by_checks'):
        caught = 'detected (' + ', '.join(r['detected_by_checks']) + ')'
    else:
        caught = '**missed**'
    summ = (m.get('summary') or '').replace('\n', ' ').replace('|', '/')
    if len(summ) > 230:
        summ = summ[:227] + '…'
    rows.append((n, m.get('property', '?'), summ, caught, r.get('history', '')))
with open('/verif/seeded/README.md', 'w') as f:
    f.write('''# Seeded changes

Each directory holds one realistic property-breaking change produced by an independent sub-agent that saw only the
property text and a scratch worktree of /repo (never anything from /verif): `patch.diff`, the demonstration test
(`demo_test.go.txt`, passes on HEAD, fails with the patch), `meta.json` (what it needs to manifest) and
`result.json` (what was confirmed: applies, builds, pinned suite unchanged, demo fails; which check reports it and
through which obligations). `self-*` are canaries written by the author of the checks. `_fixed_*` hold the
demonstrations of the genuine defects that were repaired in /repo (they pass on the repaired tree).

Re-run: `tools/run_all_seeds.sh` (scratch worktree of /repo HEAD, nothing in /repo is touched), or by hand
`git -C /repo apply seeded/<name>/patch.diff; /verif/check <ID> quick; git -C /repo apply -R seeded/<name>/patch.diff`.

| seed | property | change | reported through | history |
|---|---|---|---|---|
''')
    for r in rows:
        f.write('| %s | %s | %s | %s | %s |\n' % r)
    f.write('''
## Not reported by any check (and why)

* **C29-working-id-by-name** -- needs "no entry of the shuffled list is lost by the move-to-front" (a permutation
  argument over a struct slice with `append`); the clause is true on the unchanged tree but no solver proved it within
  4 minutes, so it is not claimed. `keep_all` (list untouched until the working id is found) is proved.
* **C29-working-id-tried-twice** (round 8) -- dropping `helloIDFound = true` makes Dial prepend the working id although
  it is configured. The loop half (`not_yet`: no entry seen so far equals the working id while it is not found) is
  proved; the deciding half at the entry of the dial loop ("one more attempt than configured ids only if no entry
  after the first equals the working id") goes through `append([]ClientHelloID{w}, ids...)` of a struct slice and
  timed out on the unchanged tree, so it is not claimed (a first version that used `atloop(0, len(helloIDs))` was
  vacuous: `atloop` resolves the variable to its current SSA value; removed).
* **C05-stale-padding-second-marshal** -- `UtlsPaddingExtension.Update` calls the user-supplied `GetPaddingLen`
  function value, whose effects a contract cannot bound, so only the `GetPaddingLen == nil` case is specified; the
  change is in how the functor's answer is stored.
* **C18-grease-placeholder-compare** -- the helper `keySharesAlreadyGenerated` is specified soundly ("true only if every
  real share has data") but not completely ("true whenever ..."): the completeness clause needs an invariant of the
  outer loop inside the nested loop, which the contract language cannot name; the change makes the helper answer
  "no" too often. (Retried in round 7 with `false_only_for_reason: !ret ==> a real share lacks data || no real share`
  plus `!found ==> !atloop(1, found)` as inner invariant: every obligation but one discharged; `atloop(1, found)`
  evaluates a header phi of loop 1 to its current value instead of its entry value, so "found only grows in the
  inner loop" cannot be stated and the outer `inv-keep` stays undecided. The clause was not committed; fixing
  `atloop` for header phis needs a full re-run of all checks and is left as the next engine change.)
* **C27-fullsize-record-rejected**, **C27-cbc-minpayload-16** -- changes in the upstream record layer
  (`readRecordOrCCS`, `halfConn.decrypt`), which is not under contract (decrypt leaves the verifiable subset: a
  64-bit `&` of two non-constant operands); C27's claim covers the wiring done by MakeConnWithCompleteHandshake, not
  the record layer itself.
* **C32-sigalgscert-json-tag** -- the change is a struct tag read by encoding/json through reflection; go/ssa carries
  no semantics for tags and encoding/json is a trusted contract, so this is outside the technique's reach.
''')
print(len(rows), 'seeds')
