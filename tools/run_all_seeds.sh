#!/bin/bash
# usage: tools/run_all_seeds.sh [name ...]
# Re-runs the property check of every seeded change (tools/run_seed.sh, scratch worktree of HEAD) and records the
# failing obligations in seeded/<name>/result.json ("detected_by_checks", "obligations"); then rewrites the table
# in seeded/README.md. Several instances may run in parallel on disjoint name lists.
cd /verif
names=("$@")
if [ ${#names[@]} -eq 0 ]; then names=($(ls seeded | grep -v '^_' | grep -v README)); fi
log=$(mktemp /tmp/seedlog.XXXXXX)
for n in "${names[@]}"; do
  [ -f seeded/$n/patch.diff ] || continue
  echo "=== $n" | tee -a "$log"
  tools/run_seed.sh seeded/$n 2>&1 | cut -c1-600 | tee -a "$log"
done
python3 tools/parse_seed_logs.py "$log"
python3 tools/seed_table.py
rm -f "$log"
