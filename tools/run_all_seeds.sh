#!/bin/bash
# usage: tools/run_all_seeds.sh [name ...]
# Re-runs the property check of every seeded change (tools/run_seed.sh, scratch worktree of HEAD) and records the
# failing obligations in seeded/<name>/result.json ("detected_by_checks", "obligations"); then rewrites the table
# in seeded/README.md.
cd /verif
names=("$@")
if [ ${#names[@]} -eq 0 ]; then names=($(ls seeded | grep -v '^_' | grep -v README)); fi
for n in "${names[@]}"; do
  [ -f seeded/$n/patch.diff ] || continue
  out=$(tools/run_seed.sh seeded/$n 2>&1)
  echo "=== $n"; echo "$out" | cut -c1-300
  python3 - "$n" <<PY
import json,re,sys,os
n=sys.argv[1]
out='''$out'''
p='/verif/seeded/%s/result.json'%n
r=json.load(open(p)) if os.path.exists(p) else {}
obls=re.findall(r'obligation=(\S+) reason="([^"]*)"( no-failing-input-found)?',out)
props=sorted(set(re.findall(r'^VIOLATION property=(\S+)',out,re.M)))
r['detected_by_checks']=props
r['obligations']=[{'obligation':o,'reason':why,'failing_input_replayed':not nf} for o,why,nf in obls]
r['patch_applies_to_repo_head']='patch does not apply' not in out
json.dump(r,open(p,'w'),indent=1)
PY
done
python3 tools/seed_table.py
