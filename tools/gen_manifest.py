#!/usr/bin/env python3
"""Regenerates /verif/MANIFEST.json from the table below (claims) and properties.jsonl."""
import json, subprocess

TECH = "contract-based deductive verification: go/ssa VC generation (govc) + z3/cvc5 portfolio"

# id -> (what the contracts decide, what stays outside / assumed)
CLAIMS = {
 "C01": ("MarshalClientHelloNoECH hands the current fields of HandshakeState.Hello (version, random, session id, every cipher suite, compression methods) and the extension list in order to the serialiser, sets Hello.Raw to exactly the buffer it assembled, and reports unencodable hellos as errors; MarshalClientHello delegates to it; getPrivatePtr carries Raw into `original`, clientHelloMsg.marshal returns `original`, writeHandshakeRecord sends what marshal returns and feeds the same slice to the transcript; (*UConn).clientHandshake writes exactly that private view as first record, hands the same object to the TLS 1.2/1.3 state machines, and its deferred closure publishes that object's `original` as Hello.Raw afterwards; buildHandshakeState re-marshals on every build; SetClientRandom, RemoveSNIExtension (defect found and fixed, 3f9f50f), removeSNIExtension, ApplyConfig, extensionsList.",
         "clientHandshake, buildHandshakeState, loadSession are thin contracts (anchors and control flow; panic-freedom and callee preconditions assumed, listed); that processHelloRetryRequest re-marshals into the same hello object is decided there (C17) for the non-ECH path only."),
 "C02": ("Per-extension wire format of all built-in extension encoders (Len/Read): exact type, outer and inner length prefixes, body bytes, ErrShortBuffer without writes, including the list-valued ones with running sums (ALPN, ALPS old/new, key_share, PSK fake/real, QUIC transport parameters, GREASE ECH); MarshalClientHelloNoECH: second padding extension is an error, total length check, and no length prefix is truncated on a nil return (defect found and fixed, 3b4694d; ECH error dropped, fixed 65e8d74).",
         "That no extension type repeats / PSK is last for every parrot (utlsIdToSpec tables are too large for the generator), and RFC-grammar parse of each body by an independent parser, are not decided; the padding case of the truncation clauses is outside (Update calls a user function)."),
 "C03": ("ApplyPreset copies the spec's cipher suites (GREASE re-drawn), compression methods (defect found and fixed, 7533201) and the extension list in order; legacy version rule via SetTLSVers; the shuffle closures of ShuffleChromeTLSExtensions exchange two elements or nothing and never touch other positions.",
         "utlsIdToSpec (2660-line literal switch) is beyond the generator: 'for every predefined id' is not decided; that the shuffle keeps GREASE/padding/PSK fixed needs the captured predicate (function value from a cell) and is not decided; extension bodies equal to the spec's after writeToUConn links is decided per extension only."),
 "C04": ("GetBoringGREASEValue, isGREASEUint16/unGREASEUint16, QUIC GREASE transport-parameter ids (31N+27, <= 2^62-1) and GREASE version form 0x?a?a?a?a (found violated, fixed by 6e3a082); ApplyPreset: GREASE cipher suites become the connection's GREASE value, the two GREASE extensions get different values (the ^0x1010 fix-up is proved), and every GREASE entry of supported_groups and every GREASE key_share group equals the same per-connection GREASE group.",
         "Freshness across connections (probabilistic) and the GREASE entries of supported_versions are not decided."),
 "C05": ("BoringPaddingStyle and AlwaysPadToLen closures: exact 255/512 policy incl. the 1-byte case and the total-length lemma; UtlsPaddingExtension Len/Read/Update; MarshalClientHelloNoECH calls Update iff there is exactly one padding extension, exactly once, on that extension, with headerLength+4+sum(Len of the others)+2.",
         "FromRaw re-creates a captured padding extension with AlwaysPadToLen(len(raw)-5) (anchor); Update's callee GetPaddingLen is a user function."),
 "C06": ("Every extension decoder (Write) in u_tls_extensions.go is total and functional: accepted inputs characterised exactly, fields are the wire values (GREASE normalised), order preserved; FromRaw: framing accepted exactly as stated, versions, cipher suites (ReadCipherSuites exact, GREASE normalised), compression methods and the no-extension case exact; ReadTLSExtensions keeps the existing prefix and appends only non-nil extensions; AlwaysPadToLen policy; ApplyPreset re-applies cipher suites, compression methods (defect found and fixed, 7533201) and extension order.",
         "'One spec extension per wire extension, in wire order' through ReadTLSExtensions (interface call to the decoders havocs the caller's cursor component) and the re-marshal idempotence lemma are not decided; equal-size hypothesis for total length is outside."),
 "C07": ("Panic-freedom (bounds, nil, type assertions, explicit panics) of all 25 extension decoders for arbitrary input bytes, against exact trusted contracts of cryptobyte.String; of the raw import drivers FromRaw, ReadCipherSuites, ReadCompressionMethods, ReadTLSExtensions, AlwaysAddPadding, Fingerprinter entry points; of the JSON importers of the extension types and the ImportTLSClientHello loops (three panics/overflows found and fixed: 6d91c88, 9e151ed, c42f361); AlwaysPadToLen never yields a negative padding length.",
         "Panics inside encoding/json and cryptobyte are assumed away (trusted contracts); the 'valid capture yields usable spec' lemma is decided only as: success returns a non-nil spec whose appended extensions are non-nil."),
 "C08": ("Len()==bytes written by Read(), prefixes, ErrShortBuffer with unchanged buffer for every built-in extension type incl. the list-valued ones (ALPN, ALPS, key_share, PSK, QUIC TP, GREASE ECH); decoders (Write) functional for 25 types, so Write(body(Read())) fields are pinned per type. Defects found and fixed: 0be6a29 (PSK Len/Read), 5e5db6f (GREASE ECH short payload).",
         "The per-type round-trip lemma Write(Read()) re-encodes to the same bytes is not stated as one lemma (both halves are, separately)."),
 "C09": ("generateRandomizedSpec on the returned spec: every key-share group is listed in supported_groups, a listed X25519MLKEM768 has a key share (after fix e3585fa), ALPS only with ALPN, TLS 1.3 specs carry padding, a supported_versions list equal to [max..min], no RC4, and the 1.3-only extensions appear only with TLS 1.3; ALPN protocol lists are non-empty; a non-randomized id is an error; weight <= 0 for TLS 1.3 gives a 1.0-1.2 spec; RSA-PSS presence as an anchor before the signature-algorithm shuffle; helpers (removeRC4Ciphers, removeRandomCiphers, sortableCiphers, shuffledCiphers, salted PRNG derivation); the shuffles are modelled as loops over the verified swap closures; applyPresetByID generates randomized specs on the connection's own ClientHelloID (seed recorded).",
         "Seed reproducibility is determinism of the SHAKE/HKDF stream (trusted, symbolic); suite order after sort.Sort and the other weight-0/1 clauses are not decided."),
 "C11": ("State hand-off between public and private handshake state is a complete field map (toPrivate13/12, toPublic13/12, key-share keys, KEM keys); fields without counterpart are enumerated; SNIExtension.writeToUConn records the name actually sent (hostnameInSNI); the TLS 1.3 client derives the exporter secret in readServerFinished from the master secret and the transcript as of the server's Finished, and handshake() performs its steps in the stated order (thin contracts).",
         "Agreement with the server's ConnectionState and exporter equality are two-party properties outside function contracts; known finding: toPrivate13 drops EarlySecret/MasterSecret."),
 "C12": ("checkServerHelloOrHRR (TLS 1.3 version, session-id echo byte-wise, compression 0, suite among the offered ids and unchanged after HRR), processServerHello 1.3 (group offered, PSK identity index strictly below the number offered, hash match) and 1.2 (compression, suite offered, ALPN offered), readServerParameters (ALPN among offered), checkALPN, mutualCipherSuite(TLS13), cipherSuite(TLS13)ByID, pickCipherSuite, decompressCert (advertised algorithm only): success implies the server's choice was offered; each unoffered choice gives an error.",
         "'Before any application data' and 'never reported in ConnectionState' are ordering/history clauses outside function contracts; what was offered is hs.hello (identity with the on-wire bytes is C01)."),
 "C13": ("makeSupportedVersions, SupportedVersionsExtension.writeToUConn, Config.supportedVersions/mutualVersion, pickTLSVersion: the client adopts exactly the ServerHello's version and only if the configuration admits it; SetTLSVers derives Config.Min/MaxVersion from the spec and rejects ranges outside TLS 1.0..1.3 (ApplyPreset applies it first); (*UConn).clientHandshake enters the state machines only after pickTLSVersion accepted the ServerHello and the RFC 8446 downgrade-sentinel check passed (thin contract). Defect found and fixed: b395d93 (Firefox_102 range).",
         "Known findings (open): SetTLSVers does not cross-check an explicit range against the supported_versions list, so 'accepted version was advertised' fails for such custom specs; utlsIdToSpec tables are beyond the generator."),
 "C14": ("verifyServerCertificate: verification name is InsecureServerNameToVerify when set else ServerName, name check skipped for '*', time check relaxed only by InsecureSkipTimeVerify, roots and time from Config, ECH-rejected path verifies against the ECH public name (defect found and fixed, 8b5692c); fresh TLS 1.3 (non-PSK) and TLS 1.2 (first handshake) paths reach it with the received chain and succeed only if it does; loadSession checks a cached session's leaf against the same verification name before offering it; clientSessionCacheKey is the configured ServerName unmodified; checkKeySize, fipsAllowedChains.",
         "x509.Certificate.Verify/VerifyHostname are trusted (abstract); readServerCertificate, doFullHandshake, loadSession are thin contracts (anchors only)."),
 "C16": ("GREASEEncryptedClientHelloExtension: init/randomizePayload/Len/Read/Write: type outer, KDF/AEAD pair taken from the candidate list, 32-byte encapsulated key, payload length = candidate + 16, Len==Read bytes; Write rejects payloads shorter than the tag (defect found and fixed, 5e5db6f); BoringGREASEECH.",
         "'Identical bytes after HRR' holds because init runs once (sync.Once, modelled as a flag); freshness across connections is probabilistic and not decided."),
 "C17": ("processHelloRetryRequest without ECH: rejects no-change HRRs, unlisted groups, groups already shared, HRRs carrying a share; the second hello has exactly one fresh share for the selected group (its data is the public key of the key generated in this call, which is the one retained), cookie echoed, KeyShareExtension and CookieExtension of uconn.Extensions updated/inserted with PSK kept last; checkServerHelloOrHRR pins the suite across HRR.",
         "'Identical except key_share, cookie, padding' for all other extensions relies on MarshalClientHelloNoECH re-reading unchanged objects (frame assumed around it); the ECH branch and 'the handshake then completes' are not decided."),
 "C18": ("establishHandshakeKeys: the ECDH key used is the one generated for the group the server selected (first classical share or the by-group map; defect found and fixed, 99e3805), hybrid groups use the retained ML-KEM key and its own X25519 key on the right halves of the server share; getSharedKey accepts only peer shares of the key's curve length; ApplyPreset's key-share block retains a key for every generated share (hybrid overwrite fixed, 6b97ef4); generateECDHEKey/curveForCurveID sizes.",
         "Freshness/non-repetition across connections is probabilistic; that the two sides derive equal secrets needs the algebra of ECDH/ML-KEM (trusted)."),
 "C19": ("Session controller typestate (shared with C20); uLoadSession: which of skip / injected ticket / injected PSK / cache load happens, injected sessions are never replaced by the cache; loadSession's name check and clientSessionCacheKey (a session is cached under, and checked against, the configured name); uApplyPatch keeps the length of Hello.Raw (binder patched in place), PatchBuiltHello recomputes the binder over the freshly marshalled hello (original = Raw) with the extension's binder key and suite hash; InitializeByUtls of the PSK/ticket extensions stores session, identities and placeholder binders of hash length; EMS link.",
         "Resumption success and binder verification by the server are two-party; PatchBuiltHello/uLoadSession are thin contracts (cryptobyte builder closures and upstream loadSession assumed)."),
 "C20": ("sessionController: representation invariant established by newSessionController and preserved by every operation; SetSessionTicketExtension / SetPskExtension / SetSessionState / SetSessionCache: exact effect and the documented panics as `panics when`; every allowed ordering is panic-free in these functions; buildHandshakeState performs preset (first build), config, session load, marshal, binder patch, final check in this order and applyPresetByID re-applies the spec on every build (control flow); injected tickets/PSKs are written to the hello exactly as given; ClientSessionState accessors/setters (SetSessionTicket nil dereference found and fixed, d22c6a5).",
         "anyTrue/allTrue/mapSlice/initializationGuard (generic higher-order helpers) are assumed for the closures used (listed); resumption with a real server is outside."),
 "C21": ("decompressCert: accepted only if the decompressed stream has exactly the declared length and ends cleanly, under any per-Read behaviour of the decoder (abstract stream model), only advertised algorithms, framing of the reconstructed message; utlsCompressedCertificateMsg.unmarshal exact; the received message is the one transcribed and decompressed. Defect found and fixed (b66d8b7).",
         "brotli/zlib/zstd themselves are abstract streams (trusted readers.vc); transcript verification by the peer is outside."),
 "C22": ("encryptedExtensionsMsg.(utls)unmarshal and the client EncryptedExtensions unmarshal exact; utlsReadServerParameters: peer settings exposed, codepoint recorded, rejection below TLS 1.3 / without ALPN, local settings looked up under the negotiated protocol (defect found and fixed, 7854e18); sendClientEncryptedExtensions is sent iff ALPS was negotiated, with codepoint, local settings and the transcript.",
         "Byte-level encoding of the client EncryptedExtensions (Builder closures) and the server's Finished check are not decided."),
 "C24": ("quicvarint Len/Append/Read/AppendWithLen for all 62-bit values incl. refusal by panic, value lemmas (round trip of the byte layout), ID/Value of every transport parameter type, TransportParameters.Marshal = concatenation of id/len/value entries in order (walk function), QUICTransportParametersExtension Len/Read.",
         "GREASE parameter value randomness is outside; Marshal's result for nil parameters is excluded by precondition."),
 "C27": ("MakeConnWithCompleteHandshake: nil for unsupported suites, exact panic condition, state fields, sequence numbers, and the mirror wiring of keys/IVs/MACs and direction flags per role through call-site anchors (defect found and fixed, 4d378a7); cipherSuiteByID searches the uTLS suite table; prepareCipherSpec/changeCipherSpec/incSeq.",
         "Suite constructors are opaque (assume-pure); keysFromMasterSecret is trusted; that two record layers then interoperate is outside."),
 "C28": ("GetOutKeystream: modifies nothing (does not change what is sent next), error for non-AEAD ciphers, result is Seal(out.cipher, nonce=out.seq, zeros(n)), i.e. the keystream bytes under the symbolic AEAD law.",
         "xorNonceAEAD.Seal restores its nonce mask (sealing does not change the cipher state); halfConn.encrypt (thin contract) seals each record under the current sequence number as nonce when the suite has no explicit nonce (TLS 1.3, ChaCha20) -- the 8-byte explicit-nonce case of TLS 1.2 AES-GCM is not decided; that real AEADs satisfy the keystream law is assumed (symbolic)."),
 "C29": ("Roller.Dial: starts with WorkingHelloID when set, then each configured id at most once (loop invariant over the shuffled list), returns the first connection whose handshake succeeds with SNI set, records that id; TCP dial error returned immediately; NewRoller, UClient, SetSNI, PRNG constructors.",
         "Concurrent Dials (data races) are outside sequential contracts; observation: the working id is tried again inside the loop (same id twice per call) when it also appears in HelloIDs -- recorded in DESIGN.md."),
 "C30": ("Intn/Int63n/Int63/Uint64/Perm/Read ranges, Range incl. the overflow corner (check overflow), FlipWeightedCoin in floating point (weight<=0 never, weight>=1 iff Int63()!=0).",
         "Determinism of the SHAKE/HKDF stream per seed and thread-safety are outside (symbolic/sequential)."),
 "C31": ("Field-map postconditions for all public<->private conversions in u_public.go (every destination field enumerated), clientHelloMsg.unmarshal sets original==data so Marshal(UnmarshalClientHello(d))==d exactly. Defect found and fixed (d18ad6e).",
         "Parse/clear-Raw/marshal/parse equality needs upstream marshalMsg (trusted frame only); TicketKeys slice conversions (array-typed fields) unsupported; known finding: toPrivate13 drops secrets."),
 "C32": ("Every entry of every dicttls value-indexed table resolves back through the name-indexed table (2183 ground obligations generated from the real initialiser; defect found and fixed, bbc5f42); JSON unmarshalers of the extension types map names/ids to the same fields the raw decoders produce (key share data dropped: defect found and fixed, a06445f; absent members: 6d91c88).",
         "encoding/json itself is trusted; whole-spec JSON vs raw import equivalence is per extension type, not one lemma."),
 "C33": ("Panic-freedom (index, slice, nil dereference, type assertion, division, explicit panic) of the client functions that consume server messages: checkServerHelloOrHRR, processServerHello (1.2/1.3), readServerParameters, processHelloRetryRequest (non-ECH), establishHandshakeKeys, utlsReadServerParameters, utlsReadServerCertificate, decompressCert, the uTLS message parsers; decompressCert allocates exactly the declared length (<= 2^24).",
         "Termination/deadlines, allocation bounds in upstream parsers, record layer and the remaining handshake functions are not under contract; panics inside upstream unmarshal methods are assumed away (assume-pure)."),
 "C34": ("Panic-freedom for arbitrary client bytes of the uTLS-specific paths a server's readHandshake reaches: utlsHandshakeMessageType is total (a fresh message object of the matching kind for the two uTLS message types, by role; unexpected_message alert and an error otherwise), utlsClientEncryptedExtensionsMsg.unmarshal, utlsCompressedCertificateMsg.unmarshal and readUint24LengthPrefixed never panic and accept exactly the stated encodings.",
         "The rest of the server (upstream crypto/tls: record layer, ClientHello parsing, processECHClientHello) is not under contract; deadlines/termination are outside function contracts."),
 "C35": ("encryptTicket/decryptTicket: bounds, lengths, MAC computed over iv||ciphertext in both, keys tried in order, authentic/reject clauses under a symbolic HMAC/CTR model; TicketKeyFromBytes/ticketKeyFromBytes derive identical keys; TicketKey conversions.",
         "Round trip Decrypt(Encrypt(s))==s needs string extensionality across heap updates (not decided); real MAC strength is an idealisation; SessionState codec is upstream."),
 "C36": ("NewLRUClientSessionCache/Get/Put refine a sequential LRU map of capacity n: data-structure invariant, Get hit/miss and recency update, Put insert/update/evict-least-recent/delete-on-nil, size never above capacity (Put(nil) on an absent key: defect found and fixed, c37dfbd); lock discipline: every access to the list and the map inside Get and Put happens while the cache's mutex is held exclusively (ghost lock state), and it is released on return; container/list is an abstract sequence (trusted containers.vc).",
         "Interleavings are not explored: linearizability follows from the lock discipline only informally (all accesses are inside Get/Put, both exclusive)."),
}

NA = {
 "C10": "two-party liveness/interoperability: no pre/post-condition on a /repo function expresses 'the handshake completes' (DESIGN.md section 7)",
 "C15": "confidentiality ('no plaintext byte contains ServerName') is a hyperproperty over the whole flight and acceptance is two-party; only the SNI link (public name with ECH) is under contract, counted under C03/C13 links",
 "C23": "handshakeContext channel/goroutine discipline: channel operations are outside the generator subset",
 "C25": "stream integrity over histories of Read/Write and cryptographic tamper detection are outside function contracts",
 "C26": "quantifies over goroutine schedules; the generator has no concurrency logic (DESIGN.md section 7)",
}

def main():
    props = [json.loads(l) for l in open('/verif/properties.jsonl')]
    ids = [p['id'] for p in props]
    hooks = subprocess.run(['git', '-C', '/repo', 'log', '--format=%h %s'], capture_output=True, text=True).stdout.splitlines()
    hook_commits = [l.split()[0] for l in hooks if l.split(' ', 1)[1].startswith('verif:')]
    checks = []
    for i in ids:
        if i not in CLAIMS:
            continue
        decided, outside = CLAIMS[i]
        checks.append({
            "property_id": i,
            "quick_cmd": f"/verif/check {i} quick",
            "thorough_cmd": f"/verif/check {i} thorough",
            "evidence_file": f"/verif/evidence/{i}.json",
            "replay_cmd_template": "cat {path}",
            "engine": "govc",
            "level_claimed": {
                "category": "proof",
                "text": "Deductive proof, for all inputs and all loop iterations, of the function contracts tagged with this property on the real source of /repo (go/ssa lowering on every run). Decided: " + decided,
                "design_ref": "DESIGN.md section 6 (" + i + ") and section 10",
            },
            "level_note": "Tiers: quick = every obligation of the functions tagged with this property, 15 s per obligation (undecided ones get one retry with 90 s); thorough = 60 s per obligation and additionally every non-trusted contracted function those functions (transitively) call, so that the contracts relied on at call sites are re-proved in the same run. Not decided / assumed: " + outside + " Trusted base: go/ssa lowering, the govc VC generator, z3/cvc5, the trusted dependency contracts listed in the evidence file; sequential reasoning; signed arithmetic mathematical unless 'check overflow'.",
            "technique": TECH,
        })
    na = [{"property_id": i, "reason": NA[i]} for i in ids if i not in CLAIMS]
    m = {
        "version": 1,
        "setup_cmd": "cd /verif/govc && GOFLAGS=-mod=mod GOPROXY=off go build -o /verif/bin/govc .",
        "hooks": {
            "guard": "verif",
            "enable": "go build tag `verif`: comment-only contract files verif_contracts*.go (the generator reads the //@ comments; no executable code is added)",
            "baseline_off_cmd": "cd /repo && GOFLAGS=-mod=mod GOPROXY=off go test -vet=off -count=1 -timeout 25m ./...",
            "source_commits": hook_commits,
            "add_only": True,
        },
        "engines": [{"name": "govc", "path": "/verif/govc", "serves_properties": sorted(CLAIMS.keys()),
                     "kind_free_text": "weakest-precondition style VC generator over go/ssa for contracts kept as //@ comments in /repo; obligations discharged by z3 5.1, z3 4.8.12, cvc5 1.0; counterexamples replayed on the real code with go test -overlay"}],
        "checks": checks,
        "notes": "Known findings: /verif/known_findings.json. Contract language: /verif/CONTRACTS.md. Design and per-property status: /verif/DESIGN.md.",
        "not_applicable": na,
    }
    json.dump(m, open('/verif/MANIFEST.json', 'w'), indent=1)
    print(len(checks), "checks,", len(na), "not applicable")

if __name__ == '__main__':
    main()
