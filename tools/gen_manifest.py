#!/usr/bin/env python3
"""Regenerates /verif/MANIFEST.json from the table below (claims) and properties.jsonl."""
import json, subprocess

TECH = "contract-based deductive verification: go/ssa VC generation (govc) + z3/cvc5 portfolio"

# id -> (what the contracts decide, what stays outside / assumed)
CLAIMS = {
 "C02": ("Per-extension wire format of 22 simple extension encoders (Len/Read): exact type, outer and inner length prefixes, body bytes, ErrShortBuffer without writes; byte-exact even beyond wire limits (silent length truncation is specified, not hidden).",
         "MarshalClientHelloNoECH (whole-hello length accounting, PSK-last, error instead of truncation), the list-valued encoders with running sums (ALPN, ALPS, key_share, PSK, QUIC TP, ECH) and utlsIdToSpec tables are not under contract yet: those clauses are not decided."),
 "C04": ("GetBoringGREASEValue, isGREASEUint16/unGREASEUint16, QUIC GREASE transport-parameter ids (31N+27, <= 2^62-1) and GREASE version form 0x?a?a?a?a (found violated, fixed by 6e3a082).",
         "ApplyPreset's de-duplication of the two GREASE extensions and same-group GREASE in key_share/supported_groups, and freshness across connections (probabilistic) are not decided."),
 "C05": ("BoringPaddingStyle and AlwaysPadToLen closures: exact 255/512 policy incl. the 1-byte case and the total-length lemma; UtlsPaddingExtension Len/Read/Update (zero body via a fresh-buffer precondition).",
         "That MarshalClientHelloNoECH calls Update exactly once with the unpadded length and the FromRaw padding reconstruction are not under contract yet."),
 "C06": ("Every extension decoder (Write) in u_tls_extensions.go is total and functional: accepted inputs characterised exactly, fields are the wire values (GREASE normalised), order preserved.",
         "FromRaw/ReadTLSExtensions/ExtensionFromID composition and the re-marshal idempotence lemma are not under contract yet; equal-size hypothesis for total length is outside."),
 "C07": ("Panic-freedom (bounds, nil, type assertions, explicit panics) of all 25 extension decoders for arbitrary input bytes, against exact trusted contracts of cryptobyte.String.",
         "JSON importers, ImportTLSClientHello, FromRaw drivers and the 'valid capture yields usable spec' lemma are not under contract yet; panics inside encoding/json and cryptobyte are assumed away."),
 "C08": ("Len()==bytes written by Read(), prefixes, ErrShortBuffer with unchanged buffer for 24 extension types; decoders (Write) functional for 25 types, so Write(body(Read())) fields are pinned per type.",
         "List-valued encoders with running sums (ALPN, ALPS, key_share, PSK, ECH, QUIC TP) and the per-type round-trip lemma Write∘Read are not under contract yet."),
 "C11": ("State hand-off between public and private handshake state is a complete field map (toPrivate13/12, toPublic13/12, key-share keys, KEM keys); fields without counterpart are enumerated.",
         "Agreement with the server's ConnectionState and exporter equality are two-party properties outside function contracts; known finding: toPrivate13 drops EarlySecret/MasterSecret."),
 "C12": ("Membership checks: checkALPN, mutualCipherSuite(TLS13), cipherSuite(TLS13)ByID, pickCipherSuite: success implies the server's choice is among the offered values; unoffered implies error; decompressCert accepts only advertised algorithms.",
         "The large upstream functions (checkServerHelloOrHRR, processServerHello, readServerParameters: group, PSK identity, session-id echo) are not under contract; 'before application data' ordering is outside."),
 "C21": ("decompressCert: accepted only if the decompressed stream has exactly the declared length under any per-Read behaviour of the decoder (abstract stream model), only advertised algorithms, framing of the reconstructed message; utlsCompressedCertificateMsg.unmarshal exact; the received message is the one transcribed and decompressed. Defect found and fixed (b66d8b7).",
         "brotli/zlib/zstd themselves are abstract streams (trusted readers.vc); transcript verification by the peer is outside."),
 "C22": ("encryptedExtensionsMsg.(utls)unmarshal and the client EncryptedExtensions unmarshal exact; utlsReadServerParameters: peer settings exposed, codepoint recorded, rejection below TLS 1.3 / without ALPN, local settings looked up under the negotiated protocol (defect found and fixed, 7854e18); sendClientEncryptedExtensions passes codepoint, local settings and the transcript.",
         "Byte-level encoding of the client EncryptedExtensions (Builder closures) and the server's Finished check are not decided."),
 "C24": ("quicvarint Len/Append/Read/AppendWithLen for all 62-bit values incl. refusal by panic, value lemmas (round trip of the byte layout), ID/Value of every transport parameter type.",
         "TransportParameters.Marshal (loop over interface values) is not under contract yet: the concatenation clause is not decided."),
 "C27": ("MakeConnWithCompleteHandshake: nil for unsupported suites, exact panic condition, state fields, sequence numbers, and the mirror wiring of keys/IVs/MACs and direction flags per role through call-site anchors (defect found and fixed, 4d378a7); prepareCipherSpec/changeCipherSpec/incSeq.",
         "Suite constructors are opaque (assume-pure); keysFromMasterSecret is trusted; that two record layers then interoperate is outside."),
 "C28": ("GetOutKeystream: modifies nothing (does not change what is sent next), error for non-AEAD ciphers, result is Seal(out.cipher, nonce=out.seq, zeros(n)), i.e. the keystream bytes under the symbolic AEAD law.",
         "That halfConn.encrypt uses the same nonce/plaintext layout (T2) and that real AEADs satisfy the keystream law are assumed."),
 "C30": ("Intn/Int63n/Int63/Uint64/Perm/Read ranges, Range incl. the overflow corner (check overflow), FlipWeightedCoin in floating point (weight<=0 never, weight>=1 iff Int63()!=0).",
         "Determinism of the SHAKE/HKDF stream per seed and thread-safety are outside (symbolic/sequential)."),
 "C31": ("Field-map postconditions for all public<->private conversions in u_public.go (every destination field enumerated), clientHelloMsg.unmarshal sets original==data so Marshal(UnmarshalClientHello(d))==d exactly. Defect found and fixed (d18ad6e).",
         "Parse/clear-Raw/marshal/parse equality needs upstream marshalMsg (trusted frame only); TicketKeys slice conversions (array-typed fields) unsupported; known finding: toPrivate13 drops secrets."),
 "C32": ("Every entry of every dicttls value-indexed table resolves back through the name-indexed table (2183 ground obligations generated from the real initialiser; defect found and fixed, bbc5f42).",
         "The JSON import vs raw import equivalence clause is not decided (JSON unmarshalers not under contract yet)."),
 "C35": ("encryptTicket/decryptTicket: bounds, lengths, MAC computed over iv||ciphertext in both, keys tried in order, authentic/reject clauses under a symbolic HMAC/CTR model; TicketKeyFromBytes/ticketKeyFromBytes derive identical keys; TicketKey conversions.",
         "Round trip Decrypt(Encrypt(s))==s needs string extensionality across heap updates (not decided); real MAC strength is an idealisation; SessionState codec is upstream."),
}

NA = {
 "C01": "contracts for MarshalClientHelloNoECH / handshakeContext / clientHandshake (Raw identity chain) not built yet",
 "C03": "contracts for ApplyPreset / ShuffleChromeTLSExtensions (closures) not built yet",
 "C09": "contracts for generateRandomizedSpec not built yet",
 "C10": "two-party liveness/interoperability: no pre/post-condition on a /repo function expresses 'the handshake completes' (DESIGN.md section 7)",
 "C13": "contracts for SetTLSVers / pickTLSVersion / utlsIdToSpec version tables not built yet",
 "C14": "contract for verifyServerCertificate not built yet",
 "C15": "contracts for the ECH paths of ApplyPreset / MarshalClientHello not built yet; confidentiality is a hyperproperty outside this technique",
 "C16": "contracts for GREASEEncryptedClientHelloExtension not built yet",
 "C17": "contract for the uTLS section of processHelloRetryRequest not built yet",
 "C18": "contracts for the key-share block of ApplyPreset not built yet",
 "C19": "contracts for uLoadSession / PatchBuiltHello not built yet",
 "C20": "contracts for sessionController typestate not built yet",
 "C23": "contracts for handshakeContext channel discipline not built yet (channel operations are outside the generator subset)",
 "C25": "contracts for UConn.Read/Write not built yet; stream integrity over histories and cryptographic tamper detection are outside this technique",
 "C26": "quantifies over goroutine schedules; the generator has no concurrency logic (DESIGN.md section 7)",
 "C29": "contract for Roller.Dial not built yet",
 "C33": "only decompressCert and the uTLS message parsers are under contract (counted under C21/C22); the remaining client paths not built yet",
 "C34": "contracts for the server-side uTLS message paths not built yet",
 "C36": "contracts for lruSessionCache (container/list model) not built yet",
}

def main():
    props = [json.loads(l) for l in open('/verif/properties.jsonl')]
    ids = [p['id'] for p in props]
    hooks = subprocess.run(['git', '-C', '/repo', 'log', '--format=%h %s'], capture_output=True, text=True).stdout.splitlines()
    hook_commits = [l.split()[0] for l in hooks if l.split(' ', 1)[1].startswith('verif:')]
    checks = []
    for i in ids:
        if i not in CLAIMS:
            continue
        decided, outside = CLAIMS[i]
        checks.append({
            "property_id": i,
            "quick_cmd": f"/verif/check {i} quick",
            "thorough_cmd": f"/verif/check {i} thorough",
            "evidence_file": f"/verif/evidence/{i}.json",
            "replay_cmd_template": "cat {path}",
            "engine": "govc",
            "level_claimed": {
                "category": "proof",
                "text": "Deductive proof, for all inputs and all loop iterations, of the function contracts tagged with this property on the real source of /repo (go/ssa lowering on every run). Decided: " + decided,
                "design_ref": "DESIGN.md section 6 (" + i + ") and section 10",
            },
            "level_note": "Not decided / assumed: " + outside + " Trusted base: go/ssa lowering, the govc VC generator, z3/cvc5, the trusted dependency contracts listed in the evidence file; sequential reasoning; signed arithmetic mathematical unless 'check overflow'.",
            "technique": TECH,
        })
    na = [{"property_id": i, "reason": NA[i]} for i in ids if i not in CLAIMS]
    m = {
        "version": 1,
        "setup_cmd": "cd /verif/govc && GOFLAGS=-mod=mod GOPROXY=off go build -o /verif/bin/govc .",
        "hooks": {
            "guard": "verif",
            "enable": "go build tag `verif`: comment-only contract files verif_contracts*.go (the generator reads the //@ comments; no executable code is added)",
            "baseline_off_cmd": "cd /repo && GOFLAGS=-mod=mod GOPROXY=off go test -vet=off -count=1 -timeout 25m ./...",
            "source_commits": hook_commits,
            "add_only": True,
        },
        "engines": [{"name": "govc", "path": "/verif/govc", "serves_properties": sorted(CLAIMS.keys()),
                     "kind_free_text": "weakest-precondition style VC generator over go/ssa for contracts kept as //@ comments in /repo; obligations discharged by z3 5.1, z3 4.8.12, cvc5 1.0; counterexamples replayed on the real code with go test -overlay"}],
        "checks": checks,
        "notes": "Known findings: /verif/known_findings.json. Contract language: /verif/CONTRACTS.md. Design and per-property status: /verif/DESIGN.md.",
        "not_applicable": na,
    }
    json.dump(m, open('/verif/MANIFEST.json', 'w'), indent=1)
    print(len(checks), "checks,", len(na), "not applicable")

if __name__ == '__main__':
    main()
