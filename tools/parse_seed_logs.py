#!/usr/bin/env python3
"""Updates seeded/<name>/result.json from logs written by tools/run_all_seeds.sh (sections '=== <name>')."""
import json, os, re, sys
for path in sys.argv[1:]:
    txt = open(path, errors='replace').read()
    parts = re.split(r'^=== (\S+)\n', txt, flags=re.M)
    for i in range(1, len(parts), 2):
        name, out = parts[i], parts[i + 1]
        p = '/verif/seeded/%s/result.json' % name
        if not os.path.isdir(os.path.dirname(p)):
            continue
        if 'property=' not in out:
            continue  # run did not complete
        r = json.load(open(p)) if os.path.exists(p) else {}
        obls = re.findall(r'obligation=(\S+) reason="([^"]*)"( no-failing-input-found)?', out)
        r['detected_by_checks'] = sorted(set(re.findall(r'^VIOLATION property=(\S+)', out, re.M)))
        r['obligations'] = [{'obligation': o, 'reason': why, 'failing_input_replayed': not nf} for o, why, nf in obls]
        r['patch_applies_to_repo_head'] = 'patch does not apply' not in out
        json.dump(r, open(p, 'w'), indent=1)
