#!/bin/bash
# usage: tools/vet_seed.sh <dir with patch.diff demo_test.go meta.json> <name> [extra property ids to check]
# Copies an independently produced seeded defect to /verif/seeded/<name>, confirms in a scratch
# worktree of /repo's HEAD that (1) the demo passes without the patch, (2) with the patch the tree
# builds, the pinned suite still passes (only the baseline's known network failure), and the demo
# fails; then runs the property's quick check against the patched tree. Writes result.json.
set -u
src=$(realpath "$1"); name=$2; shift 2
extra=("$@")
dst=/verif/seeded/$name
mkdir -p "$dst"
cp "$src/patch.diff" "$src/meta.json" "$dst/" || exit 2
cp "$src/demo_test.go" "$dst/demo_test.go.txt"
prop=$(python3 -c "import json; print(json.load(open('$dst/meta.json'))['property'])")
export GOFLAGS=-mod=mod GOPROXY=off
wt=$(mktemp -d /tmp/seedvet.XXXXXX)
git -C /repo worktree add -q --detach "$wt/repo" HEAD || exit 2
trap 'git -C /repo worktree remove --force "$wt/repo" 2>/dev/null; rm -rf "$wt"' EXIT
cd "$wt/repo"
pkgline=$(head -20 "$dst/demo_test.go.txt" | grep -m1 '^package ')
pkgname=${pkgline#package }
case "$pkgname" in
  tls) pkgdir=. ;;
  quicvarint) pkgdir=internal/quicvarint ;;
  dicttls) pkgdir=dicttls ;;
  helper) pkgdir=internal/helper ;;
  *) pkgdir=. ;;
esac
cp "$dst/demo_test.go.txt" "$pkgdir/zz_seed_demo_test.go"
demo_without=$(go test -vet=off -count=1 -timeout 120s -run 'TestSeedDemo' ./$pkgdir 2>&1 | tail -3)
echo "$demo_without" | grep -q "^ok" && w_ok=true || w_ok=false
if ! git apply --check "$dst/patch.diff" 2>/dev/null; then echo "patch does not apply to /repo HEAD"; applies=false; else applies=true; git apply "$dst/patch.diff"; fi
builds=false; suite_ok=false; d_fail=false
if $applies; then
  go build ./... 2>/dev/null && builds=true
  demo_with=$(go test -vet=off -count=1 -timeout 120s -run 'TestSeedDemo' ./$pkgdir 2>&1 | tail -5)
  echo "$demo_with" | grep -q "FAIL" && d_fail=true
  rm -f "$pkgdir/zz_seed_demo_test.go"
  suite=$(go test -vet=off -count=1 -timeout 25m ./... 2>&1)
  other=$(echo "$suite" | grep -E "^\s*--- FAIL|^panic|\[build failed\]" | grep -v "TestVerifyHostname" | wc -l)
  [ "$other" = "0" ] && suite_ok=true
fi
cd /verif
det=""
for p in $prop "${extra[@]}"; do
  r=$(tools/run_seed.sh "$dst" "$p" 2>&1)
  echo "$r" | grep -E "^(VIOLATION|property=)" | cut -c1-300
  if echo "$r" | grep -q "^VIOLATION"; then det="$det $p"; fi
done
python3 - "$dst" "$w_ok" "$applies" "$builds" "$suite_ok" "$d_fail" "$det" <<'E'
import json,sys
dst,w_ok,applies,builds,suite_ok,d_fail,det=sys.argv[1:8]
b=lambda s:s=='true'
r={"demo_passes_without_patch":b(w_ok),"patch_applies_to_repo_head":b(applies),"builds_with_patch":b(builds),
   "pinned_suite_unchanged_with_patch":b(suite_ok),"demo_fails_with_patch":b(d_fail),"detected_by_checks":det.split()}
json.dump(r,open(dst+'/result.json','w'),indent=1)
print(json.dumps(r))
E
