package main

// Private cells. A local variable that is captured by a closure (or whose address is taken for
// a defer) lives in a heap cell (`new T`). A callee can only change that cell if the cell's
// address can reach it. privateAllocs finds the cells of the function under contract whose
// address provably never leaves the function:
//   every use of the cell is a load, a store INTO it, a debug reference, or a capture by a
//   closure that (a) itself only loads the captured variable (no stores, no further escape) and
//   (b) is only deferred or called directly here -- never passed as a value to anything.
// Such cells keep their contents across calls whose effect on the heap is not known from a
// contract (whole-heap havoc, computed effect summaries, contracts without a modifies clause).
// Only scalar cells (pointers, interfaces, numbers, strings, slice headers, maps, funcs) are
// treated; struct and array cells are left alone.

import (
	"go/types"
	"sort"

	"golang.org/x/tools/go/ssa"
)

func freeVarOnlyLoaded(fv *ssa.FreeVar) bool {
	if fv.Referrers() == nil {
		return false
	}
	for _, r := range *fv.Referrers() {
		switch u := r.(type) {
		case *ssa.UnOp:
			if u.X != fv {
				return false
			}
		case *ssa.DebugRef:
		default:
			return false
		}
	}
	return true
}

func closureOnlyRunHere(mc *ssa.MakeClosure) bool {
	if mc.Referrers() == nil {
		return false
	}
	for _, r := range *mc.Referrers() {
		switch u := r.(type) {
		case *ssa.Defer:
			if u.Call.Value != mc {
				return false
			}
			for _, a := range u.Call.Args {
				if a == mc {
					return false
				}
			}
		case *ssa.Call:
			if u.Call.Value != mc {
				return false
			}
			for _, a := range u.Call.Args {
				if a == mc {
					return false
				}
			}
		case *ssa.DebugRef:
		default:
			return false
		}
	}
	return true
}

func scalarCellType(t types.Type) bool {
	switch kindOf(t) {
	case KStruct, KArray, KTuple, KUnit:
		return false
	}
	return true
}

func privateAllocs(fn *ssa.Function) map[*ssa.Alloc]bool {
	out := map[*ssa.Alloc]bool{}
	for _, b := range fn.Blocks {
		for _, in := range b.Instrs {
			al, ok := in.(*ssa.Alloc)
			if !ok || al.Referrers() == nil || !scalarCellType(derefType(al.Type())) {
				continue
			}
			priv := true
			for _, r := range *al.Referrers() {
				switch u := r.(type) {
				case *ssa.UnOp:
					if u.X != al {
						priv = false
					}
				case *ssa.Store:
					if u.Addr != al || u.Val == al {
						priv = false
					}
				case *ssa.DebugRef:
				case *ssa.MakeClosure:
					cf, ok := u.Fn.(*ssa.Function)
					if !ok || !closureOnlyRunHere(u) {
						priv = false
						break
					}
					for i, bd := range u.Bindings {
						if bd == al {
							if i >= len(cf.FreeVars) || !freeVarOnlyLoaded(cf.FreeVars[i]) {
								priv = false
							}
						}
					}
				default:
					priv = false
				}
				if !priv {
					break
				}
			}
			if priv {
				out[al] = true
			}
		}
	}
	return out
}

// keepPrivateCells runs havoc and re-asserts the contents of the private cells allocated so far.
func (vc *VC) keepPrivateCells(st *State, havoc func()) {
	if vc.fn == nil {
		havoc()
		return
	}
	if vc.privAllocs == nil {
		vc.privAllocs = privateAllocs(vc.fn)
	}
	type saved struct {
		p Val
		t types.Type
		v Val
	}
	var sv []saved
	var als []*ssa.Alloc
	for al := range vc.privAllocs {
		als = append(als, al)
	}
	sort.Slice(als, func(i, j int) bool { return als[i].Pos() < als[j].Pos() || (als[i].Pos() == als[j].Pos() && als[i].Name() < als[j].Name()) })
	for _, al := range als {
		p, ok := vc.vals[al]
		if !ok || p.K != KPtr || p.S == "" {
			continue
		}
		t := derefType(al.Type())
		sv = append(sv, saved{p, t, vc.load(st, p, t)})
	}
	havoc()
	for _, s := range sv {
		nv := vc.load(st, s.p, s.t)
		func() {
			defer func() { recover() }()
			vc.assume(st, valsEqual(vc, nv, s.v))
		}()
	}
	if len(sv) > 0 {
		vc.trustedUsed["local variable cells whose address never leaves the function keep their contents across calls (escape analysis, private.go)"] = true
	}
}
