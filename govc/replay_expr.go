package main

// Compilation of contract expressions to Go source, used only by the replay harness to evaluate
// a violated clause on what the real code did (never to discharge anything).

import (
	"fmt"
	"go/types"
	"strings"
)

type goCompiler struct {
	vc      *VC
	names   map[string]string // identifier -> Go expression (current state)
	oldName map[string]string // identifier -> Go expression (entry-state copy)
	lets    map[string]Expr
	typeEnv *Env
	imports map[string]bool
	inOld   bool
	bound   map[string]bool
	nclos   int
}

type goErr struct{ msg string }

func gfail(format string, a ...interface{}) { panic(goErr{fmt.Sprintf(format, a...)}) }

// kindOfExpr types an expression with the spec evaluator (entry state, dummy results).
func (gc *goCompiler) valOf(x Expr) (v Val, ok bool) {
	defer func() {
		if r := recover(); r != nil {
			if _, isSpec := r.(specError); isSpec {
				ok = false
				return
			}
			panic(r)
		}
	}()
	return gc.typeEnv.eval(x), true
}

func (gc *goCompiler) wrapInt(src string, x Expr) string {
	if v, ok := gc.valOf(x); ok && v.K == KInt {
		return "int64(" + src + ")"
	}
	return src
}

func substExpr(x Expr, m map[string]Expr) Expr {
	switch n := x.(type) {
	case *EIdent:
		if r, ok := m[n.Name]; ok {
			return r
		}
		return n
	case *EUn:
		return &EUn{n.Op, substExpr(n.X, m)}
	case *EBin:
		return &EBin{n.Op, substExpr(n.X, m), substExpr(n.Y, m)}
	case *ESel:
		return &ESel{substExpr(n.X, m), n.Name}
	case *EIndex:
		return &EIndex{substExpr(n.X, m), substExpr(n.I, m)}
	case *ESlice:
		var lo, hi Expr
		if n.Lo != nil {
			lo = substExpr(n.Lo, m)
		}
		if n.Hi != nil {
			hi = substExpr(n.Hi, m)
		}
		return &ESlice{substExpr(n.X, m), lo, hi}
	case *ECall:
		var as []Expr
		for _, a := range n.Args {
			as = append(as, substExpr(a, m))
		}
		return &ECall{n.Fn, as}
	case *EQuant:
		m2 := map[string]Expr{}
		for k, v := range m {
			if k != n.Var {
				m2[k] = v
			}
		}
		var lo, hi Expr
		if n.Lo != nil {
			lo = substExpr(n.Lo, m2)
		}
		if n.Hi != nil {
			hi = substExpr(n.Hi, m2)
		}
		return &EQuant{n.Forall, n.Var, lo, hi, substExpr(n.Body, m2)}
	case *ETypeAssert:
		return &ETypeAssert{substExpr(n.X, m), n.Type}
	}
	return x
}

func (gc *goCompiler) compile(x Expr) (src string, err error) {
	defer func() {
		if r := recover(); r != nil {
			if ge, ok := r.(goErr); ok {
				err = fmt.Errorf("%s", ge.msg)
				return
			}
			if se, ok := r.(specError); ok {
				err = fmt.Errorf("%s", se.msg)
				return
			}
			panic(r)
		}
	}()
	return gc.c(x), nil
}

func (gc *goCompiler) c(x Expr) string {
	switch n := x.(type) {
	case *EInt:
		if !n.V.IsInt64() {
			gfail("integer literal does not fit int64")
		}
		return fmt.Sprintf("int64(%s)", n.V.String())
	case *EBool:
		return fmt.Sprint(n.V)
	case *EStr:
		return fmt.Sprintf("%q", n.V)
	case *ENil:
		return "nil"
	case *EFloat:
		return fmt.Sprintf("float64(%v)", n.V)
	case *EIdent:
		if gc.bound[n.Name] {
			return "q_" + sanitizeGo(n.Name)
		}
		if l, ok := gc.lets[n.Name]; ok {
			// lets are entry-state expressions
			saved := gc.inOld
			gc.inOld = true
			s := gc.c(l)
			gc.inOld = saved
			return s
		}
		m := gc.names
		if gc.inOld {
			m = gc.oldName
		}
		if g, ok := m[n.Name]; ok {
			return gc.wrapInt(g, x)
		}
		if obj := gc.vc.pkg().Scope().Lookup(n.Name); obj != nil {
			switch obj.(type) {
			case *types.Const, *types.Var:
				return gc.wrapInt(n.Name, x)
			}
		}
		gfail("identifier %s cannot be evaluated on the real code", n.Name)
	case *ESel:
		if id, ok := n.X.(*EIdent); ok && !gc.bound[id.Name] {
			if _, isName := gc.names[id.Name]; !isName {
				if _, isLet := gc.lets[id.Name]; !isLet {
					if p := gc.vc.G.pkgByName(id.Name, gc.vc.pkg()); p != nil && gc.vc.pkg().Scope().Lookup(id.Name) == nil {
						gc.imports[p.Path()] = true
						return gc.wrapInt(id.Name+"."+n.Name, x)
					}
				}
			}
		}
		return gc.wrapInt("("+gc.c(n.X)+")."+n.Name, x)
	case *EIndex:
		return gc.wrapInt("("+gc.c(n.X)+")["+gc.c(n.I)+"]", x)
	case *ESlice:
		lo, hi := "", ""
		if n.Lo != nil {
			lo = gc.c(n.Lo)
		}
		if n.Hi != nil {
			hi = gc.c(n.Hi)
		}
		return "(" + gc.c(n.X) + ")[" + lo + ":" + hi + "]"
	case *EUn:
		switch n.Op {
		case "!":
			return "!(" + gc.c(n.X) + ")"
		case "-":
			return "-(" + gc.c(n.X) + ")"
		case "*":
			return gc.wrapInt("*("+gc.c(n.X)+")", x)
		}
		gfail("unary %s", n.Op)
	case *EBin:
		a, b := gc.c(n.X), gc.c(n.Y)
		switch n.Op {
		case "==>":
			return "(!(" + a + ") || (" + b + "))"
		case "<==>":
			return "((" + a + ") == (" + b + "))"
		case "&&", "||":
			return "((" + a + ") " + n.Op + " (" + b + "))"
		case "/":
			return "govcDiv(" + a + ", " + b + ")"
		case "%":
			return "govcMod(" + a + ", " + b + ")"
		case "==", "!=":
			va, oka := gc.valOf(n.X)
			vb, okb := gc.valOf(n.Y)
			if oka && okb && va.K == KSlice && vb.K == KSlice {
				gfail("slice header equality cannot be evaluated in Go")
			}
			return "((" + a + ") " + n.Op + " (" + b + "))"
		}
		return "((" + a + ") " + n.Op + " (" + b + "))"
	case *EQuant:
		if n.Lo == nil || n.Hi == nil {
			gfail("unbounded quantifier")
		}
		lo, hi := gc.c(n.Lo), gc.c(n.Hi)
		v := "q_" + sanitizeGo(n.Var)
		savedB := gc.bound[n.Var]
		gc.bound[n.Var] = true
		inner := gc.typeEnv
		gc.typeEnv = inner.with(n.Var, mathInt("q"))
		body := gc.c(n.Body)
		gc.typeEnv = inner
		gc.bound[n.Var] = savedB
		if n.Forall {
			return fmt.Sprintf("func() bool { for %s := %s; %s < %s; %s++ { if !(%s) { return false } }; return true }()", v, lo, v, hi, v, body)
		}
		return fmt.Sprintf("func() bool { for %s := %s; %s < %s; %s++ { if %s { return true } }; return false }()", v, lo, v, hi, v, body)
	case *ETypeAssert:
		return "(" + gc.c(n.X) + ").(" + n.Type + ")"
	case *ECall:
		switch n.Fn {
		case "len", "cap":
			return "int64(" + n.Fn + "(" + gc.c(n.Args[0]) + "))"
		case "old":
			saved := gc.inOld
			gc.inOld = true
			s := gc.c(n.Args[0])
			gc.inOld = saved
			return s
		case "int":
			return gc.c(n.Args[0])
		case "ite":
			v, ok := gc.valOf(n.Args[1])
			ty := "int64"
			if ok {
				switch v.K {
				case KBool:
					ty = "bool"
				case KStr:
					ty = "string"
				}
			}
			return fmt.Sprintf("func() %s { if %s { return %s }; return %s }()", ty, gc.c(n.Args[0]), gc.c(n.Args[1]), gc.c(n.Args[2]))
		case "min", "max":
			op := "<"
			if n.Fn == "max" {
				op = ">"
			}
			a, b := gc.c(n.Args[0]), gc.c(n.Args[1])
			return fmt.Sprintf("func() int64 { if %s %s %s { return %s }; return %s }()", a, op, b, a, b)
		case "isnil":
			return "(" + gc.c(n.Args[0]) + " == nil)"
		case "string":
			return "string(" + gc.c(n.Args[0]) + ")"
		case "istype":
			tl, ok := n.Args[1].(*ETypeLit)
			if !ok {
				gfail("istype")
			}
			return fmt.Sprintf("func() bool { _, ok := (%s).(%s); return ok }()", gc.c(n.Args[0]), tl.Type)
		case "unchanged":
			if gc.inOld {
				return "true"
			}
			cur := gc.c(n.Args[0])
			saved := gc.inOld
			gc.inOld = true
			old := gc.c(n.Args[0])
			gc.inOld = saved
			if len(n.Args) == 3 {
				lo, hi := gc.c(n.Args[1]), gc.c(n.Args[2])
				return fmt.Sprintf("func() bool { for i := %s; i < %s; i++ { if (%s)[i] != (%s)[i] { return false } }; return true }()", lo, hi, cur, old)
			}
			gc.imports["reflect"] = true
			return "reflect.DeepEqual(" + cur + ", " + old + ")"
		case "zeroed":
			return fmt.Sprintf("func() bool { for i := %s; i < %s; i++ { if (%s)[i] != 0 { return false } }; return true }()", gc.c(n.Args[1]), gc.c(n.Args[2]), gc.c(n.Args[0]))
		case "xor8", "xor16":
			return "((" + gc.c(n.Args[0]) + ") ^ (" + gc.c(n.Args[1]) + "))"
		case "and8", "and16":
			return "((" + gc.c(n.Args[0]) + ") & (" + gc.c(n.Args[1]) + "))"
		case "or8", "or16":
			return "((" + gc.c(n.Args[0]) + ") | (" + gc.c(n.Args[1]) + "))"
		}
		if sf, ok := gc.vc.G.contracts.Specs[n.Fn]; ok {
			m := map[string]Expr{}
			for i, p := range sf.Params {
				if i < len(n.Args) {
					m[p] = n.Args[i]
				}
			}
			return gc.c(substExpr(sf.Body, m))
		}
		gfail("%s(...) cannot be evaluated on the real code", n.Fn)
	}
	gfail("unsupported expression %T", x)
	return ""
}

func sanitizeGo(s string) string {
	return strings.NewReplacer("$", "_", "!", "_", ".", "_").Replace(s)
}

const replayHelpers = `
func govcDiv(a, b int64) int64 {
	if b == 0 {
		return 0
	}
	q := a / b
	if (a%b != 0) && ((a < 0) != (b < 0)) {
		q--
	}
	return q
}

func govcMod(a, b int64) int64 {
	if b == 0 {
		return 0
	}
	m := a % b
	if m < 0 {
		if b > 0 {
			m += b
		} else {
			m -= b
		}
	}
	return m
}
`
