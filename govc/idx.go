package main

// ix(off, i) = off + i, wrapped in an uninterpreted symbol so that quantified facts about
// slice elements have a robust e-matching trigger (arithmetic index terms are normalised by the
// solvers and then no longer match `(+ off q)` patterns).
func (vc *VC) ix(off, i Term) Term {
	if off == "0" {
		return i
	}
	if isNumeral(off) && isNumeral(i) {
		return app("+", off, i)
	}
	if !vc.declared["ix"] {
		vc.declareFun("ix", []string{"Int", "Int"}, "Int")
		vc.axiom("(forall ((o Int) (i Int)) (! (= (ix o i) (+ o i)) :pattern ((ix o i))))")
	}
	return app("ix", off, i)
}
