package main

// Lemmas: pure statements over specification integers/booleans, proved by the solvers and
// usable as documentation of how per-function contracts compose into a property.

import (
	"fmt"
	"strings"
)

func lemmaResults(g *Global, prop string) []*FuncResult {
	var out []*FuncResult
	for _, lm := range g.contracts.Lemmas {
		if prop != "" {
			has := false
			for _, p := range lm.Props {
				if p == prop {
					has = true
				}
			}
			if !has {
				continue
			}
		}
		out = append(out, generateLemma(g, lm))
	}
	return out
}

func generateLemma(g *Global, lm *Lemma) (res *FuncResult) {
	vc := NewVC(g, nil, nil)
	vc.key = "lemma." + lm.Name
	res = &FuncResult{Key: vc.key}
	defer func() {
		if r := recover(); r != nil {
			if se, ok := r.(specError); ok {
				res.Err = fmt.Errorf("%s: %s", vc.key, se.msg)
				return
			}
			panic(r)
		}
	}()
	st := &State{heap: map[string]Term{}, ep: &epoch{id: 0}, pc: "true"}
	vc.declare("alloc0", "Int")
	st.alloc = "alloc0"
	vc.entry = st.clone()
	env := &Env{vc: vc, st: st, vars: map[string]Val{}, pkg: g.modPkgs["tls"]}
	for _, p := range lm.Params {
		name, kind := p, "int"
		if i := strings.Index(p, ":"); i >= 0 {
			name, kind = strings.TrimSpace(p[:i]), strings.TrimSpace(p[i+1:])
		}
		n := "l." + sanitize(name)
		switch kind {
		case "bool":
			vc.declare(n, "Bool")
			env.vars[name] = boolVal(n)
		default:
			vc.declare(n, "Int")
			env.vars[name] = mathInt(n)
		}
	}
	for _, r := range lm.Requires {
		t, err := env.EvalBool(r.E)
		if err != nil {
			sfail("requires %q: %v", r.Src, err)
		}
		vc.assume(st, t)
	}
	vc.cover(st, "pre", "true")
	for i, en := range lm.Ensures {
		t, err := env.EvalBool(en.E)
		if err != nil {
			sfail("ensures %q: %v", en.Src, err)
		}
		tag := en.Tag
		if tag == "" {
			tag = fmt.Sprint(i)
		}
		vc.oblige(st, "lemma", tag, t, en.Src)
	}
	res.Obls = vc.obls
	res.Decls = vc.decls
	res.Axioms = vc.axioms
	res.Unsupported = vc.unsupported
	for _, o := range res.Obls {
		o.Props = lm.Props
	}
	return res
}
