package main

// Counterexample replay (DESIGN.md §2.7): a refuted obligation's model is turned into concrete Go
// arguments, the REAL function is run on them in an in-package test injected with
// `go test -overlay` (nothing is written into /repo), and the violated condition is evaluated on
// what the real code did. Only a replay that reproduces the failure counts as a confirmed input.

import (
	"encoding/json"
	"fmt"
	"go/types"
	"math/big"
	"os"
	"os/exec"
	"path/filepath"
	"sort"
	"strings"
	"time"
)

type replayCtx struct {
	vc      *VC
	fr      *FuncResult
	script  string            // obligation script (full, not sliced)
	known   map[Term]string   // model values obtained so far
	pending map[Term]bool     // terms still to be queried
	pins    []string          // equalities fixing the model between rounds
	arrays  map[string]string // backing array id -> Go variable
	pre     []string          // Go statements building inputs
	nvar    int
	fail    string
	imports map[string]bool
	prefix  string
}

func (rc *replayCtx) get(t Term) (*big.Int, bool) {
	if isNumeral(t) {
		v, _ := new(big.Int).SetString(t, 10)
		return v, true
	}
	if s, ok := rc.known[t]; ok {
		v, ok2 := parseSMTInt(s)
		return v, ok2
	}
	rc.pending[t] = true
	return nil, false
}

func (rc *replayCtx) getBool(t Term) (bool, bool) {
	if t == "true" {
		return true, true
	}
	if t == "false" {
		return false, true
	}
	if s, ok := rc.known[t]; ok {
		return strings.TrimSpace(s) == "true", true
	}
	rc.pending[t] = true
	return false, false
}

func parseSMTInt(s string) (*big.Int, bool) {
	s = strings.TrimSpace(s)
	neg := false
	if strings.HasPrefix(s, "(-") {
		neg = true
		s = strings.TrimSpace(strings.TrimSuffix(strings.TrimPrefix(s, "(-"), ")"))
	}
	v, ok := new(big.Int).SetString(s, 10)
	if !ok {
		return nil, false
	}
	if neg {
		v.Neg(v)
	}
	return v, true
}

// query asks the solver for the values of the pending terms under the current pins.
func (rc *replayCtx) query() bool {
	if len(rc.pending) == 0 {
		return true
	}
	var terms []string
	for t := range rc.pending {
		terms = append(terms, t)
	}
	sort.Strings(terms)
	var b strings.Builder
	b.WriteString(rc.script)
	for _, p := range rc.pins {
		b.WriteString(p + "\n")
	}
	b.WriteString("(check-sat)\n(get-value (" + strings.Join(terms, " ") + "))\n")
	cmd := exec.Command("z3-new", "-in", "-T:20")
	cmd.Stdin = strings.NewReader(b.String())
	out, _ := cmd.CombinedOutput()
	o := string(out)
	if !strings.HasPrefix(strings.TrimSpace(o), "sat") {
		rc.fail = "model query not sat: " + firstLines(o, 3)
		return false
	}
	vals := parseGetValue(o[strings.Index(o, "sat")+3:])
	if len(vals) != len(terms) {
		rc.fail = fmt.Sprintf("cannot parse model (%d of %d values)", len(vals), len(terms))
		return false
	}
	for i, t := range terms {
		rc.known[t] = vals[i]
		if !strings.Contains(vals[i], "!val!") && !strings.Contains(vals[i], "lambda") && !strings.Contains(vals[i], "as const") {
			rc.pins = append(rc.pins, "(assert (= "+t+" "+vals[i]+"))")
		}
	}
	rc.pending = map[Term]bool{}
	return true
}

// parseGetValue parses "((t1 v1) (t2 v2) ...)" and returns v1, v2, ...
func parseGetValue(s string) []string {
	s = strings.TrimSpace(s)
	if !strings.HasPrefix(s, "(") {
		return nil
	}
	var out []string
	i := 1
	for i < len(s) {
		for i < len(s) && (s[i] == ' ' || s[i] == '\n') {
			i++
		}
		if i >= len(s) || s[i] != '(' {
			break
		}
		// pair
		depth := 0
		start := i
		for i < len(s) {
			if s[i] == '(' {
				depth++
			} else if s[i] == ')' {
				depth--
				if depth == 0 {
					i++
					break
				}
			}
			i++
		}
		pair := s[start+1 : i-1]
		// split term / value: term is a single s-expression
		j := 0
		if pair[0] == '(' {
			d := 0
			for j < len(pair) {
				if pair[j] == '(' {
					d++
				} else if pair[j] == ')' {
					d--
					if d == 0 {
						j++
						break
					}
				}
				j++
			}
		} else {
			for j < len(pair) && pair[j] != ' ' {
				j++
			}
		}
		out = append(out, strings.TrimSpace(pair[j:]))
	}
	return out
}

func (rc *replayCtx) newVar(prefix string) string {
	rc.nvar++
	return fmt.Sprintf("%s%s%d", rc.prefix, prefix, rc.nvar)
}

func (rc *replayCtx) typeStr(t types.Type) string {
	return types.TypeString(t, func(p *types.Package) string {
		if p == rc.vc.pkg() {
			return ""
		}
		rc.imports[p.Path()] = true
		return p.Name()
	})
}

const replayMaxLen = 4096

// goValue renders the entry-state value v (of Go type t) as a Go expression. ok=false with
// rc.pending non-empty means "ask the solver and retry"; with rc.fail set it means give up.
func (rc *replayCtx) goValue(v Val, t types.Type, depth int) (string, bool) {
	env := &Env{vc: rc.vc, st: rc.vc.entry, vars: map[string]Val{}, pkg: rc.vc.pkg()}
	switch kindOf(t) {
	case KInt:
		n, ok := rc.get(v.S)
		if !ok {
			return "", false
		}
		return fmt.Sprintf("%s(%s)", rc.typeStr(t), n.String()), true
	case KBool:
		b, ok := rc.getBool(v.S)
		if !ok {
			return "", false
		}
		return fmt.Sprint(b), true
	case KStr:
		n, ok := rc.get(app("strlen", v.S))
		if !ok {
			return "", false
		}
		if n.Sign() < 0 || n.Cmp(big.NewInt(replayMaxLen)) > 0 {
			rc.fail = "model string too long for replay"
			return "", false
		}
		var bs []string
		all := true
		for i := 0; i < int(n.Int64()); i++ {
			c, ok := rc.get(app("strat", v.S, num(int64(i))))
			if !ok {
				all = false
				continue
			}
			bs = append(bs, c.String())
		}
		if !all {
			return "", false
		}
		return fmt.Sprintf("%s(string([]byte{%s}))", rc.typeStr(t), strings.Join(bs, ", ")), true
	case KSlice:
		arr, ok1 := rc.get(v.Sl[0])
		off, ok2 := rc.get(v.Sl[1])
		ln, ok3 := rc.get(v.Sl[2])
		cp, ok4 := rc.get(v.Sl[3])
		if !(ok1 && ok2 && ok3 && ok4) {
			return "", false
		}
		if arr.Sign() == 0 {
			return fmt.Sprintf("%s(nil)", rc.typeStr(t)), true
		}
		if ln.Cmp(big.NewInt(replayMaxLen)) > 0 || off.Cmp(big.NewInt(replayMaxLen)) > 0 {
			rc.fail = "model slice too long for replay"
			return "", false
		}
		capv := cp.Int64()
		if cp.Cmp(big.NewInt(ln.Int64()+64)) > 0 {
			capv = ln.Int64() + 64 // only the first len+64 cells of a huge capacity are materialised
		}
		et := t.Underlying().(*types.Slice).Elem()
		var elems []string
		all := true
		for i := int64(0); i < ln.Int64(); i++ {
			ev := env.index(Val{T: t, K: KSlice, Sl: v.Sl}, mathInt(num(i)))
			s, ok := rc.goValue(env.force(ev), et, depth+1)
			if !ok {
				if rc.fail != "" {
					return "", false
				}
				all = false
				continue
			}
			elems = append(elems, s)
		}
		if !all {
			return "", false
		}
		// one Go backing array per model array id, so that aliasing in the model is reproduced
		key := arr.String() + "/" + rc.typeStr(et)
		bk, have := rc.arrays[key]
		total := off.Int64() + capv
		if !have {
			bk = rc.newVar("arr")
			rc.arrays[key] = bk
			rc.pre = append(rc.pre, fmt.Sprintf("%s := make([]%s, %d)", bk, rc.typeStr(et), total+64))
		}
		for i, e := range elems {
			rc.pre = append(rc.pre, fmt.Sprintf("%s[%d] = %s", bk, off.Int64()+int64(i), e))
		}
		return fmt.Sprintf("%s(%s[%d:%d:%d])", rc.typeStr(t), bk, off.Int64(), off.Int64()+ln.Int64(), total), true
	case KPtr:
		if v.S == "" {
			rc.fail = "leaf pointer parameter"
			return "", false
		}
		id, ok := rc.get(v.S)
		if !ok {
			return "", false
		}
		if id.Sign() == 0 {
			return fmt.Sprintf("(%s)(nil)", rc.typeStr(t)), true
		}
		pt := derefType(t)
		if pt == nil || depth > 3 {
			rc.fail = "unsupported pointer in replay"
			return "", false
		}
		key := "obj" + id.String() + "/" + rc.typeStr(pt)
		if name, have := rc.arrays[key]; have {
			return name, true
		}
		var inner Val
		if kindOf(pt) == KStruct {
			inner = env.pureLoadStruct(v.S, pt)
		} else if kindOf(pt) == KArray {
			rc.fail = "pointer to array in replay"
			return "", false
		} else {
			inner = env.deref(v)
		}
		s, ok := rc.goValue(inner, pt, depth+1)
		if !ok {
			return "", false
		}
		name := rc.newVar("obj")
		rc.arrays[key] = name
		rc.pre = append(rc.pre, fmt.Sprintf("%s := new(%s)", name, rc.typeStr(pt)))
		rc.pre = append(rc.pre, fmt.Sprintf("*%s = %s", name, s))
		return name, true
	case KStruct:
		st := structOf(t)
		var fs []string
		all := true
		for i := 0; i < st.NumFields(); i++ {
			ft := st.Field(i).Type()
			switch kindOf(ft) {
			case KInt, KBool, KStr, KSlice, KStruct, KPtr:
				if kindOf(ft) == KSlice {
					if k := kindOf(ft.Underlying().(*types.Slice).Elem()); k != KInt && k != KBool && k != KStr {
						continue // left zero
					}
				}
				if kindOf(ft) == KPtr && (depth >= 2 || structOf(ft) == nil) {
					continue
				}
				fv := v.Fs[i]
				s, ok := rc.goValue(env.force(fv), ft, depth+1)
				if !ok {
					if rc.fail != "" {
						// unsupported nested value: leave the field zero
						rc.fail = ""
						continue
					}
					all = false
					continue
				}
				fs = append(fs, fmt.Sprintf("%s: %s", st.Field(i).Name(), s))
			}
		}
		if !all {
			return "", false
		}
		return fmt.Sprintf("%s{%s}", rc.typeStr(t), strings.Join(fs, ", ")), true
	case KIface:
		tg, ok := rc.get(v.If[0])
		if !ok {
			return "", false
		}
		if tg.Sign() == 0 {
			return fmt.Sprintf("(%s)(nil)", rc.typeStr(t)), true
		}
		// a known concrete pointer type of the module
		for _, ct := range rc.vc.G.tagTypes {
			if int64(rc.vc.G.tags[ct.String()]) == tg.Int64() {
				if _, isPtr := ct.(*types.Pointer); isPtr && structOf(ct) != nil {
					s, ok := rc.goValue(Val{T: ct, K: KPtr, S: v.If[1]}, ct, depth+1)
					if !ok {
						return "", false
					}
					return fmt.Sprintf("%s(%s)", rc.typeStr(t), s), true
				}
			}
		}
		rc.fail = "interface parameter with unknown dynamic type in replay"
		return "", false
	}
	rc.fail = "unsupported parameter type in replay: " + t.String()
	return "", false
}

// tryReplay builds and runs the replay test for a refuted obligation.
func tryReplay(g *Global, r *OblResult, dir string) *ReplayResult {
	return replayObligation(g, r, false)
}

// replayObligation: relaxed=true searches a candidate input with the quantified facts dropped
// (for obligations that failed without a model).
func replayObligation(g *Global, r *OblResult, relaxed bool) *ReplayResult {
	fr := r.FR
	if fr == nil || fr.vc == nil || fr.vc.fn == nil {
		return nil
	}
	vc := fr.vc
	fn := vc.fn
	if fn.Parent() != nil || fn.Synthetic != "" {
		return &ReplayResult{Log: "no replay: closures and synthetic functions are not replayed"}
	}
	rc := &replayCtx{vc: vc, fr: fr, known: map[Term]string{}, pending: map[Term]bool{}, arrays: map[string]string{}, imports: map[string]bool{}}
	// full (unsliced) script of the obligation: replay terms may mention any entry-heap component
	var sb strings.Builder
	sb.WriteString("(set-option :produce-models true)\n")
	build := func() string {
		sb.Reset()
		sb.WriteString("(set-option :produce-models true)\n")
		for _, d := range vc.decls {
			sb.WriteString(d + "\n")
		}
		for _, a := range vc.axioms {
			sb.WriteString(a + "\n")
		}
		sb.WriteString("(assert " + r.O.Guard + ")\n(assert (not " + r.O.Cond + "))\n")
		return sb.String()
	}
	buildArgs := func(prefix string) ([]string, []string, bool) {
		rc.pre = nil
		rc.arrays = map[string]string{}
		rc.nvar = 0
		rc.prefix = prefix
		var as []string
		complete := true
		for _, p := range fn.Params {
			s, ok := rc.goValue(vc.vals[p], p.Type(), 0)
			if !ok {
				if rc.fail != "" {
					return nil, nil, false
				}
				complete = false
				continue
			}
			as = append(as, s)
		}
		return as, rc.pre, complete
	}
	var args, pre []string
	for round := 0; round < 8; round++ {
		var complete bool
		args, pre, complete = buildArgs("")
		if rc.fail != "" {
			return &ReplayResult{Log: "no replay: " + rc.fail}
		}
		if complete {
			break
		}
		rc.script = build()
		if relaxed {
			rc.script = relaxQuantifiers(rc.script)
		}
		if !rc.query() {
			return &ReplayResult{Log: "no replay: " + rc.fail}
		}
		if round == 7 {
			return &ReplayResult{Log: "no replay: model extraction did not converge"}
		}
	}
	oldArgs, oldPre, _ := buildArgs("o")
	// bind arguments to variables a0.. (current) and oa0.. (entry-state copies)
	names := map[string]string{}
	oldNames := map[string]string{}
	var bind []string
	var callArgs []string
	for i, p := range fn.Params {
		bind = append(bind, fmt.Sprintf("a%d := %s", i, args[i]), fmt.Sprintf("oa%d := %s", i, oldArgs[i]), fmt.Sprintf("_, _ = a%d, oa%d", i, i))
		names[p.Name()] = fmt.Sprintf("a%d", i)
		oldNames[p.Name()] = fmt.Sprintf("oa%d", i)
		names[fmt.Sprintf("$%d", i)] = fmt.Sprintf("a%d", i)
		oldNames[fmt.Sprintf("$%d", i)] = fmt.Sprintf("oa%d", i)
		callArgs = append(callArgs, fmt.Sprintf("a%d", i))
	}
	rc.pre = append(append(append([]string{}, pre...), oldPre...), bind...)
	args = callArgs
	// the violated clause and the preconditions, compiled to Go
	nres := fn.Signature.Results().Len()
	tenv := vc.baseEnv(vc.entry)
	for i := 0; i < nres; i++ {
		rv := vc.freshValNoAssume(fn.Signature.Results().At(i).Type(), "replay.ret")
		tenv.vars[fmt.Sprintf("ret%d", i)] = rv
		names[fmt.Sprintf("ret%d", i)] = fmt.Sprintf("r%d", i)
		oldNames[fmt.Sprintf("ret%d", i)] = fmt.Sprintf("r%d", i)
		if n := fn.Signature.Results().At(i).Name(); n != "" && n != "_" {
			if _, clash := names[n]; !clash {
				tenv.vars[n] = rv
				names[n] = fmt.Sprintf("r%d", i)
				oldNames[n] = fmt.Sprintf("r%d", i)
			}
		}
		if nres == 1 {
			tenv.vars["ret"] = rv
			names["ret"] = "r0"
			oldNames["ret"] = "r0"
		}
	}
	gc := &goCompiler{vc: vc, names: names, oldName: oldNames, lets: map[string]Expr{}, typeEnv: tenv, imports: rc.imports, bound: map[string]bool{}}
	reqSrc, clauseSrc, clauseNote := "true", "", ""
	reqIncomplete := false
	if vc.contract != nil {
		for _, l := range vc.contract.Lets {
			gc.lets[l.Name] = l.E
		}
		var reqs []string
		gc.inOld = true
		for _, rq := range vc.contract.Requires {
			s, err := gc.compile(rq.E)
			if err != nil {
				clauseNote += "precondition not evaluable in Go (" + err.Error() + "): " + rq.Src + "\n"
				reqIncomplete = true
				continue
			}
			reqs = append(reqs, s)
		}
		gc.inOld = false
		if len(reqs) > 0 {
			reqSrc = strings.Join(reqs, " && ")
		}
		if r.O.Clause != nil && (r.O.Kind == "post" || r.O.Kind == "table") {
			s, err := gc.compile(r.O.Clause)
			if err != nil {
				clauseNote += "clause not evaluable in Go (" + err.Error() + ")\n"
			} else {
				clauseSrc = s
			}
		}
	}
	// test source
	pkg := vc.pkg()
	var src strings.Builder
	src.WriteString("package " + pkg.Name() + "\n\nimport (\n\t\"fmt\"\n\t\"testing\"\n")
	imps := []string{}
	for p := range rc.imports {
		if p != "fmt" && p != "testing" {
			imps = append(imps, p)
		}
	}
	sort.Strings(imps)
	for _, p := range imps {
		src.WriteString("\t\"" + p + "\"\n")
	}
	src.WriteString(")\n" + replayHelpers + "\n")
	src.WriteString("// generated by govc: replay of " + r.O.Name + "\nfunc TestGovcReplay(t *testing.T) {\n")
	for _, l := range rc.pre {
		src.WriteString("\t" + l + "\n")
	}
	call := ""
	recvIsMethod := fn.Signature.Recv() != nil
	if recvIsMethod {
		call = "(" + args[0] + ")." + fn.Name() + "(" + strings.Join(args[1:], ", ") + ")"
	} else {
		call = fn.Name() + "(" + strings.Join(args, ", ") + ")"
	}
	src.WriteString("\treqOK := " + reqSrc + "\n\tfmt.Printf(\"GOVC-REPLAY requires=%v\\n\", reqOK)\n")
	src.WriteString("\tdefer func() {\n\t\tif r := recover(); r != nil {\n\t\t\tfmt.Printf(\"GOVC-REPLAY panic: %v\\n\", r)\n\t\t}\n\t}()\n")
	if nres == 0 {
		src.WriteString("\t" + call + "\n\tfmt.Println(\"GOVC-REPLAY returned\")\n")
	} else {
		var rs []string
		for i := 0; i < nres; i++ {
			rs = append(rs, fmt.Sprintf("r%d", i))
		}
		src.WriteString("\t" + strings.Join(rs, ", ") + " := " + call + "\n")
		src.WriteString("\tfmt.Printf(\"GOVC-REPLAY returned: " + strings.Repeat("%#v ", nres) + "\\n\", " + strings.Join(rs, ", ") + ")\n")
	}
	if clauseSrc != "" {
		src.WriteString("\tfmt.Printf(\"GOVC-REPLAY clause-holds=%v\\n\", " + clauseSrc + ")\n")
	}
	src.WriteString("}\n")
	// run
	tmp, err := os.MkdirTemp("", "govc-replay")
	if err != nil {
		return &ReplayResult{Log: "no replay: " + err.Error()}
	}
	defer os.RemoveAll(tmp)
	testFile := filepath.Join(tmp, "zz_govc_replay_test.go")
	os.WriteFile(testFile, []byte(src.String()), 0o644)
	pkgDir := g.repoDir
	for _, p := range g.pkgs {
		if p.Types == pkg && len(p.GoFiles) > 0 {
			pkgDir = filepath.Dir(p.GoFiles[0])
		}
	}
	ov := map[string]map[string]string{"Replace": {filepath.Join(pkgDir, "zz_govc_replay_test.go"): testFile}}
	ovb, _ := json.Marshal(ov)
	ovFile := filepath.Join(tmp, "ov.json")
	os.WriteFile(ovFile, ovb, 0o644)
	cmd := exec.Command("go", "test", "-overlay", ovFile, "-vet=off", "-count=1", "-v", "-timeout", "60s", "-run", "^TestGovcReplay$", ".")
	cmd.Dir = pkgDir
	cmd.Env = append(os.Environ(), "GOFLAGS=-mod=mod", "GOPROXY=off")
	done := make(chan struct{})
	var out []byte
	go func() {
		var err error
		out, err = cmd.CombinedOutput()
		if err != nil {
			out = append(out, []byte("\n[go test: "+err.Error()+"]")...)
		}
		close(done)
	}()
	select {
	case <-done:
	case <-time.After(180 * time.Second):
		if cmd.Process != nil {
			cmd.Process.Kill()
		}
		<-done
	}
	o := string(out)
	res := &ReplayResult{}
	res.Log = "inputs (from the solver's model):\n" + strings.Join(rc.pre, "\n") + "\ncall: " + call + "\n--- test source ---\n" + src.String() + "--- go test output ---\n" + firstLines(o, 40)
	panicked := strings.Contains(o, "GOVC-REPLAY panic:")
	switch r.O.Kind {
	case "bounds", "slice", "nil", "assert-type", "div0", "unreachable", "makeslice", "nilmap", "shift", "callee-panic", "panic-allowed":
		res.Confirmed = panicked
	case "must-panic":
		res.Confirmed = strings.Contains(o, "GOVC-REPLAY returned")
	default:
		// postconditions: the clause is evaluated on what the real code returned; a panic on
		// inputs that satisfy the preconditions also refutes it
		res.Confirmed = panicked || strings.Contains(o, "GOVC-REPLAY clause-holds=false")
	}
	if strings.Contains(o, "GOVC-REPLAY requires=false") {
		// the model violates a precondition when evaluated concretely: not a real input
		res.Confirmed = false
	}
	if reqIncomplete {
		// a precondition could not be checked on the concrete input: the run proves nothing
		res.Confirmed = false
	}
	if clauseNote != "" {
		res.Log += "\n" + clauseNote
	}
	return res
}
