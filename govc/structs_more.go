package main

// copy() and general append() for slices whose elements are structs (field-wise, quantified).

import (
	"fmt"
	"go/types"

	"golang.org/x/tools/go/ssa"
)

// copyStructs models copy(dst, src) for struct elements.
func (vc *VC) copyStructs(st *State, dst, src Val, et types.Type, rt types.Type) Val {
	cnt := vc.define("copyn", "Int", ite(app("<=", dst.Sl[2], src.Sl[2]), dst.Sl[2], src.Sl[2]))
	dstArr := vc.patAtom(dst.Sl[0], "Int")
	for _, p := range vc.elemPaths(et, dstArr) {
		p := p
		okk := vc.forEachLeafComp(p.t, func(name, srt string, lf Leaf) {
			h := vc.heapGet(st, name, srt)
			nh := vc.heapHavoc(st, name)
			rel := app("-", p.index("o"), dst.Sl[1])
			in := and(p.member("o"), app("<=", "0", rel), app("<", rel, cnt))
			vc.axiom(fmt.Sprintf("(forall ((o Int)) (! (= (select %s o) (ite %s (select %s %s) (select %s o))) :pattern ((select %s o))))",
				nh, in, h, p.at(src.Sl[0], vc.ix(src.Sl[1], rel)), h, nh))
		})
		if !okk {
			vc.unsupportedf("copy of slice of structs with array-typed field")
		}
	}
	return Val{T: rt, K: KInt, S: cnt}
}

// appendStructsGeneral models append(s, src...) for struct elements and any number of elements.
func (vc *VC) appendStructsGeneral(st *State, c *ssa.CallCommon, s, src Val, rt types.Type, et types.Type) Val {
	n := src.Sl[2]
	newLen := vc.define("applen", "Int", app("+", s.Sl[2], n))
	fits := vc.define("appfits", "Bool", app("<=", newLen, s.Sl[3]))
	freshArr := vc.patAtom(vc.allocID(st), "Int")
	ncap := vc.fresh("appcap")
	vc.declare(ncap, "Int")
	vc.assume(st, and(app("<=", newLen, ncap), app("<=", ncap, bigNum(pow2(maxLenBits)))))
	rArr := vc.patAtom(ite(fits, s.Sl[0], freshArr), "Int")
	rOff := vc.define("appoff", "Int", ite(fits, s.Sl[1], "0"))
	rCap := vc.define("appcap", "Int", ite(fits, s.Sl[3], ncap))
	res := Val{T: rt, K: KSlice, Sl: [4]Term{rArr, rOff, newLen, rCap}}
	for _, p := range vc.elemPaths(et, rArr) {
		p := p
		okk := vc.forEachLeafComp(p.t, func(name, srt string, lf Leaf) {
			h := vc.heapGet(st, name, srt)
			nh := vc.heapHavoc(st, name)
			rel := app("-", p.index("o"), rOff) // position within the result slice
			inNew := and(p.member("o"), app("<=", s.Sl[2], rel), app("<", rel, newLen))
			inOld := and(p.member("o"), not(fits), app("<=", "0", rel), app("<", rel, s.Sl[2]))
			val := ite(inNew, sel(h, p.at(src.Sl[0], vc.ix(src.Sl[1], app("-", rel, s.Sl[2])))),
				ite(inOld, sel(h, p.at(s.Sl[0], vc.ix(s.Sl[1], rel))), sel(h, "o")))
			vc.axiom(fmt.Sprintf("(forall ((o Int)) (! (= (select %s o) %s) :pattern ((select %s o))))", nh, val, nh))
		})
		if !okk {
			vc.unsupportedf("append to slice of structs with array-typed field")
		}
	}
	return res
}
