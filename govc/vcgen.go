package main

// Verification-condition generation over go/ssa (DESIGN.md §2.3).

import (
	"fmt"
	"go/constant"
	"go/token"
	"go/types"
	"math/big"
	"sort"
	"strings"

	"golang.org/x/tools/go/ssa"
)

type edge struct{ from, to int }

type loopInfo struct {
	header  *ssa.BasicBlock
	body    map[*ssa.BasicBlock]bool
	ordinal int
}

type FuncResult struct {
	Key         string
	Obls        []*Obligation
	Decls       []string
	Axioms      []string
	Unsupported []string
	Assumptions []string
	Trusted     []string
	Opaque      []string
	MathArith   bool
	Contract    *Contract
	NInstr      int
	Err         error
	vc          *VC // generator state, kept for counterexample replay
}

func NewVC(g *Global, fn *ssa.Function, c *Contract) *VC {
	key := ""
	if fn != nil {
		key = funcKey(fn)
	}
	return &VC{G: g, fn: fn, key: key, contract: c, declared: map[string]bool{}, compSort: map[string]string{},
		vals: map[ssa.Value]Val{}, params: map[string]Val{}, compMeta: map[string]compMetaT{}, ordinals: map[string]int{}, assumptions: map[string]bool{},
		trustedUsed: map[string]bool{}, opaqueCalls: map[string]bool{}, strLits: map[string]Term{}, anchorsHit: map[int]bool{}}
}

func (vc *VC) pkg() *types.Package {
	if vc.fn == nil {
		return vc.G.modPkgs["tls"]
	}
	return fnPackage(vc.fn)
}

// GenerateFunc produces all obligations for one function under contract.
func GenerateFunc(g *Global, fn *ssa.Function, c *Contract) (res *FuncResult) {
	vc := NewVC(g, fn, c)
	res = &FuncResult{Key: vc.key, Contract: c}
	defer func() {
		if r := recover(); r != nil {
			if se, ok := r.(specError); ok {
				res.Err = fmt.Errorf("%s: contract error: %s", vc.key, se.msg)
				return
			}
			panic(r)
		}
	}()
	vc.run()
	res.vc = vc
	res.Obls = vc.obls
	res.Decls = vc.decls
	res.Axioms = vc.axioms
	res.Unsupported = vc.unsupported
	res.MathArith = vc.mathArith
	for k := range vc.assumptions {
		res.Assumptions = append(res.Assumptions, k)
	}
	sort.Strings(res.Assumptions)
	for k := range vc.trustedUsed {
		res.Trusted = append(res.Trusted, k)
	}
	sort.Strings(res.Trusted)
	for k := range vc.opaqueCalls {
		res.Opaque = append(res.Opaque, k)
	}
	sort.Strings(res.Opaque)
	for _, b := range fn.Blocks {
		res.NInstr += len(b.Instrs)
	}
	return res
}

func (vc *VC) baseEnv(st *State) *Env {
	e := &Env{vc: vc, st: st, old: vc.entry, vars: map[string]Val{}, pkg: vc.pkg()}
	for k, v := range vc.params {
		e.vars[k] = v
	}
	return e
}

func (vc *VC) run() {
	fn := vc.fn
	c := vc.contract
	st := &State{heap: map[string]Term{}, ep: &epoch{id: 0}, pc: "true"}
	vc.declare("alloc0", "Int")
	st.alloc = "alloc0"
	vc.assume(st, app("<=", "1", "alloc0"))
	// parameters and free variables
	for i, p := range fn.Params {
		v := vc.freshVal(st, p.Type(), "p."+p.Name())
		vc.vals[p] = v
		vc.params[p.Name()] = v
		vc.params[fmt.Sprintf("$%d", i)] = v
	}
	for _, fv := range fn.FreeVars {
		v := vc.freshVal(st, fv.Type(), "fv."+fv.Name())
		vc.vals[fv] = v
		vc.params[fv.Name()] = v
	}
	if fn.Synthetic == "package initializer" && fn.Pkg != nil {
		// the runtime runs a package initializer exactly once: its guard is false at entry
		comp := "glob:" + fn.Pkg.Pkg.Name() + ".init$guard"
		vc.compSort[comp] = "Bool"
		vc.compMeta[comp] = compMetaT{kind: LGlobal}
		st.heap[comp] = "false"
		vc.assumptions["package initializer runs exactly once (init$guard is false at entry)"] = true
	}
	vc.entry = st.clone()
	vc.entry.heap = map[string]Term{} // entry heap: bases are materialised lazily (same names)
	if c != nil {
		env := vc.baseEnv(st)
		env.old = nil
		for _, l := range c.Lets {
			v, err := env.EvalVal(l.E)
			if err != nil {
				sfail("let %s: %v", l.Name, err)
			}
			vc.params[l.Name] = v
			env.vars[l.Name] = v
		}
		for _, r := range c.Requires {
			t, err := env.EvalBool(r.E)
			if err != nil {
				sfail("requires %q: %v", r.Src, err)
			}
			vc.assume(st, t)
		}
	}
	vc.entry.pc = st.pc
	vc.cover(st, "pre", "true")

	if len(fn.Blocks) == 0 {
		vc.unsupportedf("function %s has no body", vc.key)
		return
	}
	region := map[*ssa.BasicBlock]bool{}
	for _, b := range fn.Blocks {
		region[b] = true
	}
	vc.computeLoops()
	vc.callOrdinals()
	vc.processRegion(region, fn.Blocks[0], st, nil)
	if c != nil {
		for i, ac := range c.Asserts {
			if !vc.anchorsHit[i] {
				vc.unsupportedf("anchor %q matches no call site", ac.Anchor)
			}
		}
	}
}

// ---------- CFG ----------

type cfgInfo struct {
	rpo      []*ssa.BasicBlock
	loops    map[*ssa.BasicBlock]*loopInfo
	backEdge map[edge]bool
}

func (vc *VC) computeLoops() {
	fn := vc.fn
	ci := &cfgInfo{loops: map[*ssa.BasicBlock]*loopInfo{}, backEdge: map[edge]bool{}}
	for _, b := range fn.Blocks {
		for _, s := range b.Succs {
			if s.Dominates(b) {
				ci.backEdge[edge{b.Index, s.Index}] = true
				li := ci.loops[s]
				if li == nil {
					li = &loopInfo{header: s, body: map[*ssa.BasicBlock]bool{s: true}}
					ci.loops[s] = li
				}
				// reverse reachability from b without passing s
				stack := []*ssa.BasicBlock{b}
				for len(stack) > 0 {
					x := stack[len(stack)-1]
					stack = stack[:len(stack)-1]
					if li.body[x] {
						continue
					}
					li.body[x] = true
					for _, p := range x.Preds {
						stack = append(stack, p)
					}
				}
			}
		}
	}
	// loop ordinals by source order
	var hs []*ssa.BasicBlock
	for h := range ci.loops {
		hs = append(hs, h)
	}
	pos := func(b *ssa.BasicBlock) token.Pos {
		best := token.NoPos
		li := ci.loops[b]
		for blk := range li.body {
			for _, in := range blk.Instrs {
				if p := in.Pos(); p.IsValid() && (best == token.NoPos || p < best) {
					best = p
				}
			}
		}
		return best
	}
	sort.Slice(hs, func(i, j int) bool {
		pi, pj := pos(hs[i]), pos(hs[j])
		if pi != pj {
			return pi < pj
		}
		return hs[i].Index < hs[j].Index
	})
	for i, h := range hs {
		ci.loops[h].ordinal = i
	}
	// reverse postorder ignoring back edges
	visited := map[*ssa.BasicBlock]bool{}
	var post []*ssa.BasicBlock
	var dfs func(b *ssa.BasicBlock)
	dfs = func(b *ssa.BasicBlock) {
		visited[b] = true
		for _, s := range b.Succs {
			if ci.backEdge[edge{b.Index, s.Index}] || visited[s] {
				continue
			}
			dfs(s)
		}
		post = append(post, b)
	}
	dfs(fn.Blocks[0])
	for i := len(post) - 1; i >= 0; i-- {
		ci.rpo = append(ci.rpo, post[i])
	}
	vc.cfg = ci
}

// mergeStates merges the states arriving over forward edges.
func (vc *VC) mergeStates(sts []*State) *State {
	if len(sts) == 1 {
		return sts[0].clone()
	}
	var pcs []Term
	for _, s := range sts {
		pcs = append(pcs, s.pc)
	}
	m := &State{heap: map[string]Term{}}
	// deferred calls: the union over the incoming paths, each guarded by the paths that registered it
	{
		same := true
		for _, s := range sts[1:] {
			if len(s.defers) != len(sts[0].defers) {
				same = false
				break
			}
			for i := range s.defers {
				if s.defers[i].d != sts[0].defers[i].d || s.defers[i].guard != sts[0].defers[i].guard {
					same = false
				}
			}
		}
		if same {
			m.defers = sts[0].defers
		} else {
			idx := map[*ssa.Defer]int{}
			for _, s := range sts {
				for _, de := range s.defers {
					g := and(s.cfOr(), de.guard)
					if k, ok := idx[de.d]; ok {
						m.defers[k].guard = or(m.defers[k].guard, g)
					} else {
						idx[de.d] = len(m.defers)
						m.defers = append(m.defers, deferEntry{d: de.d, guard: g, args: de.args})
					}
				}
			}
			for k := range m.defers {
				m.defers[k].guard = vc.define("dg", "Bool", m.defers[k].guard)
			}
		}
	}
	m.pc = vc.define("pc", "Bool", or(pcs...))
	{
		var cfs []Term
		for _, s := range sts {
			cfs = append(cfs, s.cfOr())
		}
		m.cf = vc.define("cf", "Bool", or(cfs...))
	}
	sameEp := true
	for _, s := range sts[1:] {
		if s.ep != sts[0].ep {
			sameEp = false
		}
	}
	if sameEp {
		m.ep = sts[0].ep
	} else {
		ne := &epoch{id: -1}
		for _, s := range sts {
			ne.conds = append(ne.conds, s.cfOr())
			ne.subs = append(ne.subs, s.ep)
		}
		m.ep = ne
	}
	comps := map[string]bool{}
	for _, s := range sts {
		for c := range s.heap {
			comps[c] = true
		}
	}
	var cl []string
	for c := range comps {
		cl = append(cl, c)
	}
	sort.Strings(cl)
	for _, c := range cl {
		srt := vc.compSort[c]
		t := vc.heapGet(sts[len(sts)-1], c, srt)
		same := true
		for i := len(sts) - 2; i >= 0; i-- {
			ti := vc.heapGet(sts[i], c, srt)
			if ti != t {
				same = false
			}
			t = ite(sts[i].cfOr(), ti, t)
		}
		if same {
			m.heap[c] = vc.heapGet(sts[0], c, srt)
		} else {
			m.heap[c] = vc.defineByAxiom("H."+c, srt, t)
		}
	}
	for _, s := range sts {
		for c := range s.dirty {
			if _, mat := m.heap[c]; !mat {
				if m.dirty == nil {
					m.dirty = map[string]bool{}
				}
				m.dirty[c] = true
			}
		}
	}
	a := sts[len(sts)-1].alloc
	for i := len(sts) - 2; i >= 0; i-- {
		a = ite(sts[i].cfOr(), sts[i].alloc, a)
	}
	m.alloc = vc.define("alloc", "Int", a)
	return m
}

func mergeVals(conds []Term, vs []Val) Val {
	r := vs[len(vs)-1]
	r.C = nil
	r.NZ = nil
	allSameC := true
	for _, v := range vs {
		if v.C == nil || vs[0].C == nil || v.C.Cmp(vs[0].C) != 0 {
			allSameC = false
		}
	}
	if allSameC {
		return vs[0]
	}
	for i := len(vs) - 2; i >= 0; i-- {
		r = iteVal(conds[i], vs[i], r)
	}
	return r
}

func iteVal(c Term, a, b Val) Val {
	r := b
	r.C = nil
	r.NZ = nil
	if a.K == KPtr && b.K == KPtr && (a.Loc != nil || b.Loc != nil) {
		if a.Loc != nil && b.Loc != nil && a.Loc.Kind == b.Loc.Kind && a.Loc.Kind == LElem && types.Identical(a.Loc.T, b.Loc.T) {
			r.Loc = &Loc{Kind: LElem, Base: ite(c, a.Loc.Base, b.Loc.Base), Idx: ite(c, a.Loc.Idx, b.Loc.Idx), T: a.Loc.T}
			return r
		}
		r.Loc = nil
		r.S = "" // unsupported merge of leaf pointers; detected on use
		return r
	}
	switch {
	case b.K == KSlice || a.K == KSlice:
		if a.K != KSlice { // nil
			a = Val{K: KSlice, Sl: [4]Term{"0", "0", "0", "0"}}
		}
		if b.K != KSlice {
			r = a
			b = Val{K: KSlice, Sl: [4]Term{"0", "0", "0", "0"}}
		}
		for i := range r.Sl {
			r.Sl[i] = ite(c, a.Sl[i], b.Sl[i])
		}
	case b.K == KIface || a.K == KIface:
		if a.K != KIface {
			a = Val{K: KIface, If: [2]Term{"0", "0"}}
		}
		if b.K != KIface {
			r = a
			b = Val{K: KIface, If: [2]Term{"0", "0"}}
		}
		r.If[0] = ite(c, a.If[0], b.If[0])
		r.If[1] = ite(c, a.If[1], b.If[1])
	case b.K == KStruct || b.K == KTuple:
		r.Fs = make([]Val, len(b.Fs))
		for i := range b.Fs {
			r.Fs[i] = iteVal(c, a.Fs[i], b.Fs[i])
		}
	default:
		r.S = ite(c, a.S, b.S)
	}
	return r
}

// nameVal gives names (define-fun) to the leaf terms of v to keep terms small.
func (vc *VC) nameVal(prefix string, v Val) Val {
	switch v.K {
	case KSlice:
		for i, p := range []string{".arr", ".off", ".len", ".cap"} {
			v.Sl[i] = vc.define(prefix+p, "Int", v.Sl[i])
		}
	case KIface:
		v.If[0] = vc.define(prefix+".tag", "Int", v.If[0])
		v.If[1] = vc.define(prefix+".val", "Int", v.If[1])
	case KStruct, KTuple:
		for i := range v.Fs {
			v.Fs[i] = vc.nameVal(fmt.Sprintf("%s.%d", prefix, i), v.Fs[i])
		}
	case KArray:
		if len(v.Fs) == 0 && v.S != "" {
			et := v.T.Underlying().(*types.Array).Elem()
			v.S = vc.define(prefix, "(Array Int "+sortOfKind(kindOf(et))+")", v.S)
		}
	case KPtr:
		if v.S != "" {
			v.S = vc.define(prefix, "Int", v.S)
		}
		if v.Loc != nil {
			l := *v.Loc
			if l.Base != "" {
				l.Base = vc.define(prefix+".b", "Int", l.Base)
			}
			if l.Idx != "" {
				l.Idx = vc.define(prefix+".i", "Int", l.Idx)
			}
			v.Loc = &l
		}
	case KUnit:
	default:
		if v.S != "" {
			v.S = vc.define(prefix, sortOfKind(v.K), v.S)
		}
	}
	return v
}

// ---------- region processing ----------

func (vc *VC) processRegion(region map[*ssa.BasicBlock]bool, start *ssa.BasicBlock, startState *State, startPhis map[*ssa.Phi]Val) {
	edgeStates := map[edge]*State{}
	for _, b := range vc.cfg.rpo {
		if !region[b] {
			continue
		}
		var st *State
		if b == start {
			st = startState
			for ph, v := range startPhis {
				vc.vals[ph] = v
			}
		} else {
			var ins []*State
			var preds []*ssa.BasicBlock
			for _, p := range b.Preds {
				if vc.cfg.backEdge[edge{p.Index, b.Index}] {
					continue
				}
				if s, ok := edgeStates[edge{p.Index, b.Index}]; ok {
					ins = append(ins, s)
					preds = append(preds, p)
				}
			}
			if len(ins) == 0 {
				continue
			}
			if li, isLoop := vc.cfg.loops[b]; isLoop {
				st = vc.enterLoop(li, ins, preds)
				if st == nil {
					continue
				}
			} else {
				st = vc.mergeStates(ins)
				// phis
				var conds []Term
				for _, s := range ins {
					conds = append(conds, s.cfOr())
				}
				for _, in := range b.Instrs {
					ph, ok := in.(*ssa.Phi)
					if !ok {
						break
					}
					var vs []Val
					for _, p := range preds {
						vs = append(vs, vc.operandOnEdge(ph, p, b))
					}
					vc.vals[ph] = vc.nameVal("v."+ph.Name(), mergeVals(conds, vs))
				}
			}
		}
		vc.processBlock(b, st, region, start, edgeStates)
	}
}

func (vc *VC) operandOnEdge(ph *ssa.Phi, pred, b *ssa.BasicBlock) Val {
	for i, p := range b.Preds {
		if p == pred {
			return vc.value(ph.Edges[i])
		}
	}
	panic("operandOnEdge")
}

// loopEnv builds the environment in which invariants of loop li are evaluated;
// phis maps the header phis to the values they have on the edge/in the state considered.
func (vc *VC) loopEnv(li *loopInfo, st *State, phis map[*ssa.Phi]Val) *Env {
	env := vc.baseEnv(st)
	// loop-carried variables shadow parameters of the same name
	for _, in := range li.header.Instrs {
		ph, ok := in.(*ssa.Phi)
		if !ok {
			break
		}
		if ph.Comment != "" {
			if v, ok := phis[ph]; ok {
				env.vars[ph.Comment] = v
			}
		}
	}
	env.local = func(name string) (Val, bool) {
		// loop-carried variables by source name
		for _, in := range li.header.Instrs {
			ph, ok := in.(*ssa.Phi)
			if !ok {
				break
			}
			if ph.Comment == name || "$"+ph.Comment == name {
				return phis[ph], true
			}
		}
		if name == "$k" {
			for _, in := range li.header.Instrs {
				ph, ok := in.(*ssa.Phi)
				if !ok {
					break
				}
				if ph.Comment == "rangeindex" {
					return mathInt(app("+", phis[ph].S, "1")), true
				}
			}
		}
		return vc.localByName(name, li.header, st)
	}
	return env
}

// localByName resolves a source-level local variable to the SSA value that holds it at block `at`.
func (vc *VC) localByName(name string, at *ssa.BasicBlock, st *State) (Val, bool) {
	return vc.localByNameAt(name, at, 0, st)
}

// localByNameAt also considers definitions in block `at` before instruction index `before`.
func (vc *VC) localByNameAt(name string, at *ssa.BasicBlock, before int, st *State) (Val, bool) {
	var best ssa.Value
	var bestAddr bool
	var bestBlock *ssa.BasicBlock
	bestIdx := -1
	for _, b := range vc.fn.Blocks {
		for i, in := range b.Instrs {
			dr, ok := in.(*ssa.DebugRef)
			if !ok {
				continue
			}
			id, ok := dr.Expr.(interface{ String() string })
			_ = id
			if o := dr.Object(); o == nil || o.Name() != name {
				continue
			}
			if !(b.Dominates(at)) {
				continue
			}
			if b == at && i >= before {
				continue
			}
			if _, known := vc.vals[dr.X]; !known {
				if _, isConst := dr.X.(*ssa.Const); !isConst {
					continue
				}
			}
			// a variable that lives in memory (address-taken: IsAddr) is always read through its
			// address in the current state; value DebugRefs of it are snapshots of earlier loads
			if best != nil && bestAddr && !dr.IsAddr {
				continue
			}
			if dr.IsAddr && best != nil && !bestAddr {
				best, bestAddr, bestBlock, bestIdx = dr.X, true, b, i
				continue
			}
			// prefer the latest dominating definition
			if best == nil || bestBlock.Dominates(b) && (bestBlock != b || i > bestIdx) {
				best, bestAddr, bestBlock, bestIdx = dr.X, dr.IsAddr, b, i
			}
		}
	}
	if best == nil {
		return Val{}, false
	}
	v := vc.value(best)
	if bestAddr {
		pt := derefType(best.Type())
		e := &Env{vc: vc, st: st}
		if kindOf(pt) == KStruct {
			return e.pureLoadStruct(v.S, pt), true
		}
		l := v.Loc
		if l == nil {
			l = &Loc{Kind: LDeref, Base: v.S, T: pt}
		}
		return e.pureLoadLoc(l, pt), true
	}
	return v, true
}

func (vc *VC) loopSpec(li *loopInfo) *LoopSpec {
	if vc.contract == nil {
		return nil
	}
	return vc.contract.Loops[li.ordinal]
}

func (vc *VC) checkInvariants(li *loopInfo, st *State, phis map[*ssa.Phi]Val, kind string) {
	ls := vc.loopSpec(li)
	if ls == nil {
		return
	}
	env := vc.loopEnv(li, st, phis)
	for i, inv := range ls.Invariants {
		t, err := env.EvalBool(inv.E)
		if err != nil {
			sfail("loop %d invariant %q: %v", li.ordinal, inv.Src, err)
		}
		tag := inv.Tag
		if tag == "" {
			tag = fmt.Sprint(i)
		}
		vc.oblige(st, kind, fmt.Sprintf("L%d.%s@%d", li.ordinal, tag, vc.nextOrdinal(kind+fmt.Sprint(li.ordinal, i))), t, inv.Src)
	}
	if kind == "inv-init" {
		// assertions about the state in which the loop is entered (not part of the invariant)
		for i, c := range ls.Entry {
			t, err := env.EvalBool(c.E)
			if err != nil {
				sfail("loop %d entry %q: %v", li.ordinal, c.Src, err)
			}
			tag := c.Tag
			if tag == "" {
				tag = fmt.Sprint(i)
			}
			vc.oblige(st, "loop-entry", fmt.Sprintf("L%d.%s@%d", li.ordinal, tag, vc.nextOrdinal("loop-entry"+fmt.Sprint(li.ordinal, i))), t, c.Src)
		}
	}
}

func (vc *VC) enterLoop(li *loopInfo, ins []*State, preds []*ssa.BasicBlock) *State {
	h := li.header
	var headerPhis []*ssa.Phi
	for _, in := range h.Instrs {
		if ph, ok := in.(*ssa.Phi); ok {
			headerPhis = append(headerPhis, ph)
		} else {
			break
		}
	}
	if vc.loopSpec(li) == nil {
		vc.unsupportedf("loop %d (block %d %s) has no invariant", li.ordinal, h.Index, h.Comment)
	}
	// inv-init on each entry edge
	for i, s := range ins {
		phis := map[*ssa.Phi]Val{}
		for _, ph := range headerPhis {
			phis[ph] = vc.operandOnEdge(ph, preds[i], h)
		}
		if vc.loopEntry == nil {
			vc.loopEntry = map[int]*State{}
		}
		vc.loopEntry[li.ordinal] = s // atloop(N, e) during establishment: the state on this entry edge
		vc.checkInvariants(li, s, phis, "inv-init")
	}
	merged := vc.mergeStates(ins)
	if vc.loopEntry == nil {
		vc.loopEntry = map[int]*State{}
	}
	vc.loopEntry[li.ordinal] = merged.clone() // atloop(N, e): the state in which the loop was entered
	autoFrame := vc.contract != nil && vc.contract.HasMod
	if autoFrame {
		for _, fc := range vc.frameConds(merged) {
			vc.oblige(merged, "frame-init", fmt.Sprintf("L%d.%s", li.ordinal, fc.comp), fc.cond, fc.descr)
		}
	}
	// dry run to discover what the loop writes
	freshPhis := func() map[*ssa.Phi]Val {
		m := map[*ssa.Phi]Val{}
		for _, ph := range headerPhis {
			m[ph] = vc.freshValNoAssume(ph.Type(), "v."+ph.Name())
		}
		return m
	}
	snapDecl, snapAx, snapObl := len(vc.decls), len(vc.axioms), len(vc.obls)
	snapDeclared := make(map[string]bool, len(vc.declared))
	for k, v := range vc.declared {
		snapDeclared[k] = v
	}
	snapUnsup := len(vc.unsupported)
	snapOrd := map[string]int{}
	for k, v := range vc.ordinals {
		snapOrd[k] = v
	}
	snapLits := map[string]Term{}
	for k, v := range vc.strLits {
		snapLits[k] = v
	}
	snapEntryHeap := map[string]Term{}
	for k, v := range vc.entry.heap {
		snapEntryHeap[k] = v
	}
	snapMergedHeap := map[string]Term{}
	for k, v := range merged.heap {
		snapMergedHeap[k] = v
	}
	savedTouched, savedTop, savedDry := vc.touched, vc.topHit, vc.dry
	vc.touched, vc.topHit, vc.dry = map[string]bool{}, false, true
	dryState := merged.clone()
	dryState.pc = "true"
	dryState.cf = "true"
	vc.processRegion(li.body, h, dryState, freshPhis())
	touched, top := vc.touched, vc.topHit
	vc.touched, vc.topHit, vc.dry = savedTouched, savedTop, savedDry
	vc.decls, vc.axioms, vc.obls = vc.decls[:snapDecl], vc.axioms[:snapAx], vc.obls[:snapObl]
	vc.declared = snapDeclared
	vc.entry.heap = snapEntryHeap
	merged.heap = snapMergedHeap
	vc.unsupported = vc.unsupported[:snapUnsup]
	vc.ordinals = snapOrd
	vc.strLits = snapLits
	if vc.touched != nil {
		for c := range touched {
			vc.touched[c] = true
		}
		if top {
			vc.topHit = true
		}
	}
	// havoc
	st := merged
	if top {
		vc.havocAll(st)
	} else {
		var cl []string
		for c := range touched {
			cl = append(cl, c)
		}
		sort.Strings(cl)
		for _, c := range cl {
			if _, known := vc.compSort[c]; !known {
				// written (by an effect-summarised call) but never read so far: unknown from here on
				if st.dirty == nil {
					st.dirty = map[string]bool{}
				}
				st.dirty[c] = true
				continue
			}
			vc.heapHavoc(st, c)
		}
		for _, c := range cl {
			if _, known := vc.compSort[c]; known {
				vc.heapTypingAxioms(st, c)
			}
		}
		na := vc.fresh("alloc")
		vc.declare(na, "Int")
		vc.assume(st, app("<=", st.alloc, na))
		st.alloc = na
	}
	phis := freshPhis()
	for _, ph := range headerPhis {
		vc.assume(st, vc.wellTyped(st, phis[ph]))
		vc.vals[ph] = phis[ph]
	}
	if autoFrame {
		for _, fc := range vc.frameConds(st) {
			vc.assume(st, fc.cond)
		}
	}
	// assume invariants
	if ls := vc.loopSpec(li); ls != nil {
		env := vc.loopEnv(li, st, phis)
		for _, inv := range ls.Invariants {
			t, err := env.EvalBool(inv.E)
			if err != nil {
				sfail("loop %d invariant %q: %v", li.ordinal, inv.Src, err)
			}
			vc.assume(st, t)
		}
	}
	vc.cover(st, fmt.Sprintf("loop%d", li.ordinal), "true")
	return st
}

// heapTypingAxioms states well-typedness of a freshly havocked heap component.
func (vc *VC) heapTypingAxioms(st *State, comp string) {
	meta, ok := vc.compMeta[comp]
	if !ok {
		return
	}
	h := st.heap[comp]
	var body func(x Term) Term
	// object and array ids stored in the ENTRY heap denote objects that existed at entry
	if strings.HasSuffix(h, ".e0") && !strings.Contains(h, "!") {
		isID := meta.part == "arr" || meta.part == "val" ||
			(meta.part == "" && meta.t != nil && (kindOf(meta.t) == KPtr || kindOf(meta.t) == KMap || kindOf(meta.t) == KChan))
		if isID {
			vc.ensureRt()
			switch meta.kind {
			case LField, LDeref:
				// only for objects that themselves existed at entry: the "entry value" of a field of an
				// object allocated later is meaningless (a callee may have initialised it)
				vc.axiom(fmt.Sprintf("(forall ((o Int)) (! (=> (< (rt o) alloc0) (< (rt (select %s o)) alloc0)) :pattern ((select %s o))))", h, h))
			case LElem:
				vc.axiom(fmt.Sprintf("(forall ((a Int) (i Int)) (! (=> (< (rt a) alloc0) (< (rt (select (select %s a) i)) alloc0)) :pattern ((select (select %s a) i))))", h, h))
			case LGlobal:
				vc.axiom(fmt.Sprintf("(< (rt %s) alloc0)", h))
			}
		}
	}
	switch meta.part {
	case "":
		if meta.t == nil || kindOf(meta.t) != KInt {
			return
		}
		lo, hi, _, _ := intRange(meta.t)
		if lo == nil {
			return
		}
		body = func(x Term) Term { return and(app("<=", bigNum(lo), x), app("<=", x, bigNum(hi))) }
	case "len":
		capComp := strings.TrimSuffix(comp, ".len") + ".cap"
		if hc, ok := st.heap[capComp]; ok && meta.kind == LGlobal {
			vc.axiom(and(app("<=", "0", h), app("<=", h, hc)))
			return
		}
		if hc, ok := st.heap[capComp]; ok && (meta.kind == LField || meta.kind == LDeref) {
			vc.axiom(fmt.Sprintf("(forall ((o Int)) (! (and (<= 0 (select %s o)) (<= (select %s o) (select %s o))) :pattern ((select %s o))))", h, h, hc, h))
			return
		}
		body = func(x Term) Term { return app("<=", "0", x) }
	case "off", "cap":
		body = func(x Term) Term { return app("<=", "0", x) }
	default:
		return
	}
	switch meta.kind {
	case LField, LDeref, LGhost:
		vc.axiom(fmt.Sprintf("(forall ((o Int)) (! %s :pattern ((select %s o))))", body(sel(h, "o")), h))
	case LElem:
		vc.axiom(fmt.Sprintf("(forall ((a Int) (i Int)) (! %s :pattern ((select (select %s a) i))))", body(sel(sel(h, "a"), "i")), h))
	case LGlobal:
		vc.axiom(body(h))
	}
}

type compMetaT struct {
	kind LocKind
	t    types.Type
	part string
}

// ---------- blocks and instructions ----------

func (vc *VC) processBlock(b *ssa.BasicBlock, st *State, region map[*ssa.BasicBlock]bool, start *ssa.BasicBlock, edgeStates map[edge]*State) {
	vc.curBlock = b
	for _, in := range b.Instrs {
		vc.curPos = in.Pos()
		switch x := in.(type) {
		case *ssa.Phi, *ssa.DebugRef:
			continue
		case *ssa.If:
			c := vc.value(x.Cond)
			vc.branch(b, 0, st, c.S, region, start, edgeStates)
			vc.branch(b, 1, st, not(c.S), region, start, edgeStates)
			return
		case *ssa.Jump:
			vc.branch(b, 0, st, "true", region, start, edgeStates)
			return
		case *ssa.Return:
			vc.doReturn(st, x)
			return
		case *ssa.Panic:
			vc.doPanic(st, x)
			return
		default:
			vc.instr(st, in)
		}
	}
}

func (vc *VC) branch(b *ssa.BasicBlock, succIdx int, st *State, cond Term, region map[*ssa.BasicBlock]bool, start *ssa.BasicBlock, edgeStates map[edge]*State) {
	s := b.Succs[succIdx]
	if cond == "false" {
		if vc.infeasible == nil {
			vc.infeasible = map[edge]bool{}
		}
		vc.infeasible[edge{b.Index, s.Index}] = true
		return // statically infeasible edge
	}
	ns := st.clone()
	vc.assume(ns, cond)
	if cond != "true" {
		ns.cf = vc.define("cf", "Bool", and(ns.cfOr(), cond))
	}
	e := edge{b.Index, s.Index}
	if vc.cfg.backEdge[e] {
		li := vc.cfg.loops[s]
		if s == start || region[s] {
			// inv-keep
			phis := map[*ssa.Phi]Val{}
			for _, in := range s.Instrs {
				ph, ok := in.(*ssa.Phi)
				if !ok {
					break
				}
				phis[ph] = vc.operandOnEdge(ph, b, s)
			}
			vc.checkInvariants(li, ns, phis, "inv-keep")
			if vc.contract != nil && vc.contract.HasMod {
				for _, fc := range vc.frameConds(ns) {
					vc.oblige(ns, "frame-keep", fmt.Sprintf("L%d.%s@%d", li.ordinal, fc.comp, vc.nextOrdinal("fk"+fc.comp)), fc.cond, fc.descr)
				}
			}
		}
		return
	}
	if !region[s] {
		return // leaves the region (dry run of a loop body)
	}
	if old, ok := edgeStates[e]; ok {
		// two edges between the same blocks (If with identical targets)
		edgeStates[e] = vc.mergeStates([]*State{old, ns})
		return
	}
	edgeStates[e] = ns
}

func (vc *VC) value(v ssa.Value) Val {
	switch x := v.(type) {
	case *ssa.Const:
		return vc.constVal(x)
	case *ssa.Global:
		return vc.globalAddr(x)
	case *ssa.Function:
		return Val{T: x.Type(), K: KFunc, S: num(int64(vc.G.funcID(x)))}
	case *ssa.Builtin:
		return Val{T: x.Type(), K: KFunc, S: "0"}
	}
	if r, ok := vc.vals[v]; ok {
		return r
	}
	vc.unsupportedf("use of undefined SSA value %s (%T)", v.Name(), v)
	r := vc.freshValNoAssume(v.Type(), "undef."+v.Name())
	vc.vals[v] = r
	return r
}

func (vc *VC) constVal(c *ssa.Const) Val {
	t := c.Type()
	if c.Value == nil {
		// zero value / nil
		switch kindOf(t) {
		case KStruct:
			return vc.zeroVal(t)
		}
		return vc.zeroVal(t)
	}
	switch c.Value.Kind() {
	case constant.Int:
		if kindOf(t) == KFloat {
			f, _ := constant.Float64Val(c.Value)
			return Val{T: t, K: KFloat, S: fpLit(f)}
		}
		bi, _ := new(big.Int).SetString(c.Value.ExactString(), 10)
		return Val{T: t, K: KInt, S: bigNum(bi), C: bi}
	}
	return constToVal(vc, t, c.Value)
}

func (vc *VC) setVal(v ssa.Value, val Val) {
	val.T = v.Type()
	vc.vals[v] = vc.nameVal("v."+v.Name(), val)
}

func (vc *VC) nilCheck(st *State, p Val, what string) {
	if p.Loc != nil {
		return
	}
	if p.S == "" {
		vc.unsupportedf("use of unsupported pointer (%s)", what)
		return
	}
	vc.oblige(st, "nil", "", not(eq(p.S, "0")), what)
}

func (vc *VC) instr(st *State, in ssa.Instruction) {
	switch x := in.(type) {
	case *ssa.BinOp:
		vc.setVal(x, vc.binop(st, x))
	case *ssa.UnOp:
		vc.setVal(x, vc.unop(st, x))
	case *ssa.Convert:
		vc.setVal(x, vc.convert(st, x))
	case *ssa.ChangeType:
		v := vc.value(x.X)
		vc.setVal(x, v)
	case *ssa.ChangeInterface:
		vc.setVal(x, vc.value(x.X))
	case *ssa.MakeInterface:
		vc.setVal(x, vc.makeIface(st, vc.value(x.X), x.X.Type()))
	case *ssa.TypeAssert:
		vc.typeAssert(st, x)
	case *ssa.Extract:
		t := vc.value(x.Tuple)
		if x.Index < len(t.Fs) {
			vc.vals[x] = t.Fs[x.Index]
		} else {
			vc.unsupportedf("extract from non-tuple")
			vc.vals[x] = vc.freshVal(st, x.Type(), "u")
		}
	case *ssa.Alloc:
		vc.alloc(st, x)
	case *ssa.FieldAddr:
		p := vc.value(x.X)
		vc.nilCheck(st, p, "field address of nil pointer")
		stT := derefType(x.X.Type())
		vc.vals[x] = vc.fieldAddr(p, stT, x.Field)
	case *ssa.Field:
		s := vc.value(x.X)
		if s.K == KStruct && x.Field < len(s.Fs) {
			vc.vals[x] = s.Fs[x.Field]
		} else {
			vc.unsupportedf("field of non-struct value")
			vc.vals[x] = vc.freshVal(st, x.Type(), "u")
		}
	case *ssa.IndexAddr:
		vc.indexAddr(st, x)
	case *ssa.Index:
		vc.indexVal(st, x)
	case *ssa.Lookup:
		vc.lookup(st, x)
	case *ssa.Slice:
		vc.sliceOp(st, x)
	case *ssa.MakeSlice:
		vc.makeSlice(st, x)
	case *ssa.Store:
		p := vc.value(x.Addr)
		vc.nilCheck(st, p, "store through nil pointer")
		v := vc.value(x.Val)
		v.T = derefType(x.Addr.Type())
		if v.K == KPtr && kindOf(v.T) == KSlice {
			v = vc.zeroVal(v.T)
		}
		vc.storeV(st, p, v)
	case *ssa.Call:
		vc.call(st, x)
	case *ssa.MakeMap:
		vc.makeMap(st, x)
	case *ssa.MapUpdate:
		vc.mapUpdate(st, x)
	case *ssa.MakeClosure:
		vc.makeClosure(st, x)
	case *ssa.Defer:
		vc.doDefer(st, x)
	case *ssa.RunDefers:
		vc.runDefers(st)
	case *ssa.Go:
		vc.assumptions["goroutine start is an opaque spawn (sequential reasoning only)"] = true
	case *ssa.MakeChan:
		id := vc.allocID(st)
		vc.setVal(x, Val{K: KChan, S: id})
	case *ssa.Range:
		vc.unsupportedf("range over map/string")
		vc.vals[x] = Val{T: x.Type(), K: KUnit}
	case *ssa.Next:
		vc.unsupportedf("range over map/string")
		vc.vals[x] = vc.freshVal(st, x.Type(), "next")
	case *ssa.Send, *ssa.Select:
		vc.unsupportedf("channel operation %T", in)
	case *ssa.SliceToArrayPointer:
		vc.unsupportedf("slice to array pointer conversion")
		vc.vals[x] = vc.freshVal(st, x.Type(), "u")
	default:
		vc.unsupportedf("instruction %T", in)
		if v, ok := in.(ssa.Value); ok {
			vc.vals[v] = vc.freshVal(st, v.Type(), "u")
		}
	}
}

func (vc *VC) allocID(st *State) Term {
	id := vc.define("obj", "Int", st.alloc)
	st.alloc = vc.define("alloc", "Int", app("+", st.alloc, "1"))
	return id
}

func (vc *VC) alloc(st *State, x *ssa.Alloc) {
	t := derefType(x.Type())
	id := vc.allocID(st)
	p := Val{T: x.Type(), K: KPtr, S: id}
	if at, ok := t.Underlying().(*types.Array); ok {
		vc.zeroElems(st, at.Elem(), id)
		vc.vals[x] = p
		return
	}
	z := vc.zeroVal(t)
	vc.storeV(st, p, z)
	vc.vals[x] = p
}

func tokOp(t token.Token) string {
	switch t {
	case token.ADD:
		return "+"
	case token.SUB:
		return "-"
	case token.MUL:
		return "*"
	case token.QUO:
		return "/"
	case token.REM:
		return "%"
	case token.AND:
		return "&"
	case token.OR:
		return "|"
	case token.XOR:
		return "^"
	case token.SHL:
		return "<<"
	case token.SHR:
		return ">>"
	case token.AND_NOT:
		return "&^"
	case token.EQL:
		return "=="
	case token.NEQ:
		return "!="
	case token.LSS:
		return "<"
	case token.LEQ:
		return "<="
	case token.GTR:
		return ">"
	case token.GEQ:
		return ">="
	}
	return t.String()
}

func (vc *VC) binop(st *State, x *ssa.BinOp) Val {
	a := vc.value(x.X)
	b := vc.value(x.Y)
	op := tokOp(x.Op)
	switch op {
	case "==", "!=":
		var t Term
		switch {
		case a.K == KFloat:
			t = app("fp.eq", a.S, b.S)
		default:
			func() {
				defer func() {
					if r := recover(); r != nil {
						vc.unsupportedf("comparison: %v", r)
						t = vc.fresh("cmp")
						vc.declare(t, "Bool")
					}
				}()
				t = valsEqual(vc, a, b)
			}()
		}
		if op == "!=" {
			t = not(t)
		}
		return boolVal(t)
	case "<", "<=", ">", ">=":
		if a.K == KFloat {
			return boolVal(app(map[string]string{"<": "fp.lt", "<=": "fp.leq", ">": "fp.gt", ">=": "fp.geq"}[op], a.S, b.S))
		}
		if a.K == KStr {
			vc.unsupportedf("string ordering comparison")
			t := vc.fresh("cmp")
			vc.declare(t, "Bool")
			return boolVal(t)
		}
		return boolVal(app(op, a.S, b.S))
	}
	switch a.K {
	case KStr:
		if op == "+" {
			return Val{T: x.Type(), K: KStr, S: vc.strConcat(a.S, b.S)}
		}
	case KFloat:
		fop := map[string]string{"+": "fp.add RNE", "-": "fp.sub RNE", "*": "fp.mul RNE", "/": "fp.div RNE"}[op]
		if fop != "" {
			return Val{T: x.Type(), K: KFloat, S: "(" + fop + " " + a.S + " " + b.S + ")"}
		}
	case KBool:
		// &, |, ^ on booleans do not occur in SSA (lowered); fallthrough
	case KInt:
		var ov func(kind string, cond Term)
		ov = func(kind string, cond Term) {
			if kind == "overflow" {
				if vc.contract != nil && vc.contract.Overflow {
					vc.oblige(st, "overflow", "", cond, x.String())
				} else {
					vc.mathArith = true
				}
				return
			}
			vc.oblige(st, kind, "", cond, x.String())
		}
		if op == "<<" || op == ">>" {
			// shift count: negative counts panic
			if b.C == nil {
				_, _, signed, _ := intRange(b.T)
				if signed {
					vc.oblige(st, "shift", "", app(">=", b.S, "0"), x.String())
				}
			}
		}
		var r Val
		_, _, signed, _ := intRange(x.Type())
		if signed && (op == "+" || op == "-" || op == "*") && !(vc.contract != nil && vc.contract.Overflow) {
			r = vc.intBinop(op, a, b, x.Type(), nil)
		} else {
			r = vc.intBinop(op, a, b, x.Type(), ov)
		}
		r.T = x.Type()
		if r.C != nil {
			lo, hi, _, _ := intRange(x.Type())
			if lo != nil && (r.C.Cmp(lo) < 0 || r.C.Cmp(hi) > 0) {
				r.C = nil
			}
		}
		return r
	}
	vc.unsupportedf("binary operation %s on %s", op, x.X.Type())
	return vc.freshVal(st, x.Type(), "u")
}

func (vc *VC) unop(st *State, x *ssa.UnOp) Val {
	a := vc.value(x.X)
	switch x.Op {
	case token.NOT:
		return boolVal(not(a.S))
	case token.SUB:
		if a.K == KFloat {
			return Val{T: x.Type(), K: KFloat, S: app("fp.neg", a.S)}
		}
		_, _, signed, _ := intRange(x.Type())
		r := Val{T: x.Type(), K: KInt}
		if signed {
			r.S = app("-", a.S)
		} else {
			r.S = wrapTo(x.Type(), app("-", a.S))
		}
		if a.C != nil {
			r.C = new(big.Int).Neg(a.C)
			if signed {
				r.S = bigNum(r.C)
			} else {
				r.C = nil
			}
		}
		return r
	case token.XOR:
		_, hi, signed, _ := intRange(x.Type())
		if signed {
			return Val{T: x.Type(), K: KInt, S: app("-", app("-", a.S), "1")}
		}
		return Val{T: x.Type(), K: KInt, S: app("-", bigNum(hi), a.S)}
	case token.MUL:
		vc.nilCheck(st, a, "load through nil pointer")
		return vc.load(st, a, x.Type())
	case token.ARROW:
		vc.unsupportedf("channel receive")
		return vc.freshVal(st, x.Type(), "recv")
	}
	vc.unsupportedf("unary operation %s", x.Op)
	return vc.freshVal(st, x.Type(), "u")
}

func (vc *VC) convert(st *State, x *ssa.Convert) Val {
	a := vc.value(x.X)
	from, to := kindOf(x.X.Type()), kindOf(x.Type())
	switch {
	case from == KInt && to == KInt:
		var nt func(Term)
		if vc.contract != nil && vc.contract.NoTrunc {
			nt = func(c Term) { vc.oblige(st, "notrunc", "", c, x.String()) }
		}
		return vc.convertInt(a, x.Type(), nt)
	case from == KStr && to == KSlice:
		return vc.strToBytes(st, a, x.Type())
	case from == KSlice && to == KStr:
		return Val{T: x.Type(), K: KStr, S: vc.bytesToStr(st, a)}
	case from == KInt && to == KFloat:
		return Val{T: x.Type(), K: KFloat, S: app("(_ to_fp 11 53) RNE", app("to_real", a.S))}
	case from == KFloat && to == KFloat:
		return a
	case from == KPtr && to == KPtr:
		return a
	case from == KInt && to == KStr:
		vc.unsupportedf("integer to string conversion")
	case from == KFloat && to == KInt:
		vc.unsupportedf("float to integer conversion")
	default:
		vc.unsupportedf("conversion %s -> %s", x.X.Type(), x.Type())
	}
	return vc.freshVal(st, x.Type(), "conv")
}

func fpLit(f float64) Term {
	r := new(big.Rat)
	r.SetFloat64(f)
	n, d := r.Num(), r.Denom()
	t := fmt.Sprintf("(/ %s.0 %s.0)", new(big.Int).Abs(n).String(), d.String())
	if n.Sign() < 0 {
		t = "(- " + t + ")"
	}
	return "((_ to_fp 11 53) RNE " + t + ")"
}

// ---------- interfaces ----------

func isPointerLike(t types.Type) bool {
	switch t.Underlying().(type) {
	case *types.Pointer, *types.Map, *types.Chan, *types.Signature:
		return true
	}
	return false
}

func (vc *VC) makeIface(st *State, v Val, dyn types.Type) Val {
	r := Val{K: KIface}
	r.If[0] = vc.typeTag(dyn)
	switch {
	case isPointerLike(dyn):
		if v.S == "" {
			vc.unsupportedf("leaf pointer converted to interface")
			v.S = "0"
		}
		r.If[1] = v.S
	case kindOf(dyn) == KInt:
		r.If[1] = v.S
	case kindOf(dyn) == KBool:
		r.If[1] = ite(v.S, "1", "0")
	default:
		// box the value
		id := vc.boxValue(st, v, dyn)
		r.If[1] = id
	}
	return r
}

func (vc *VC) boxValue(st *State, v Val, dyn types.Type) Term {
	if st == nil {
		sfail("boxing needs a state")
	}
	id := vc.allocID(st)
	v.T = dyn
	vc.storeV(st, Val{T: types.NewPointer(dyn), K: KPtr, S: id}, v)
	return id
}

// unboxIface extracts the dynamic value of static type t from interface value iv.
func (vc *VC) unboxIface(st *State, iv Val, t types.Type, pure bool) Val {
	if _, isIface := t.Underlying().(*types.Interface); isIface {
		r := iv
		r.T = t
		return r
	}
	switch {
	case isPointerLike(t):
		return Val{T: t, K: kindOf(t), S: iv.If[1]}
	case kindOf(t) == KInt:
		return Val{T: t, K: KInt, S: iv.If[1]}
	case kindOf(t) == KBool:
		return boolVal(eq(iv.If[1], "1"))
	}
	p := Val{T: types.NewPointer(t), K: KPtr, S: iv.If[1]}
	if pure {
		e := &Env{vc: vc, st: st}
		return e.deref(p)
	}
	return vc.load(st, p, t)
}

func (vc *VC) implementsTerm(tag Term, iface types.Type) Term {
	it, ok := iface.Underlying().(*types.Interface)
	if !ok {
		return eq(tag, vc.typeTag(iface))
	}
	name := "impl." + sanitize(typeKey(iface))
	if !vc.declared[name] {
		vc.declareFun(name, []string{"Int"}, "Bool")
		vc.G.preassignTags()
		vc.axiom(not(app(name, "0")))
	}
	if vc.implIfaces == nil {
		vc.implIfaces = map[string]*types.Interface{}
	}
	vc.implIfaces[name] = it
	// the predicate is total over every concrete type tag known so far (extended on new tags)
	vc.extendImplAxioms()
	return app(name, tag)
}

func (vc *VC) typeAssert(st *State, x *ssa.TypeAssert) {
	iv := vc.value(x.X)
	if iv.K != KIface {
		vc.unsupportedf("type assertion on non-interface value")
		vc.vals[x] = vc.freshVal(st, x.Type(), "u")
		return
	}
	var ok Term
	if _, isIface := x.AssertedType.Underlying().(*types.Interface); isIface {
		ok = vc.implementsTerm(iv.If[0], x.AssertedType)
	} else {
		ok = eq(iv.If[0], vc.typeTag(x.AssertedType))
	}
	if !x.CommaOk {
		vc.oblige(st, "assert-type", "", ok, x.String())
		vc.setVal(x, vc.unboxIface(st, iv, x.AssertedType, false))
		return
	}
	okN := vc.define("ok", "Bool", ok)
	inner := vc.unboxIface(st, iv, x.AssertedType, false)
	z := vc.zeroVal(x.AssertedType)
	res := iteVal(okN, inner, z)
	res.T = x.AssertedType
	res = vc.nameVal("v."+x.Name(), res)
	vc.vals[x] = Val{T: x.Type(), K: KTuple, Fs: []Val{res, boolVal(okN)}}
}

// ---------- return / panic ----------

func (vc *VC) resultEnv(st *State, rets []Val) *Env {
	env := vc.baseEnv(st)
	sig := vc.fn.Signature
	for i, r := range rets {
		env.vars[fmt.Sprintf("ret%d", i)] = r
		if n := sig.Results().At(i).Name(); n != "" && n != "_" {
			if _, clash := env.vars[n]; !clash {
				env.vars[n] = r
			}
		}
	}
	if len(rets) == 1 {
		env.vars["ret"] = rets[0]
	}
	return env
}

func (vc *VC) doReturn(st *State, x *ssa.Return) {
	retOrd := vc.nextOrdinal("return")
	var rets []Val
	for i, r := range x.Results {
		v := vc.value(r)
		v.T = vc.fn.Signature.Results().At(i).Type()
		if v.K == KPtr && kindOf(v.T) == KSlice {
			v = vc.zeroVal(v.T)
		}
		if v.K == KPtr && kindOf(v.T) == KIface {
			v = vc.zeroVal(v.T)
		}
		rets = append(rets, v)
	}
	c := vc.contract
	if c == nil {
		return
	}
	env := vc.resultEnv(st, rets)
	vc.cover(st, fmt.Sprintf("return%d", retOrd), "true")
	for i, en := range c.Ensures {
		tag := en.Tag
		if tag == "" {
			tag = fmt.Sprint(i)
		}
		if labels, terms, ok := vc.splitKeysQuantifier(env, en.E); ok {
			// table postcondition: one ground obligation per entry
			for k := range labels {
				vc.oblige(st, "table", fmt.Sprintf("%s[%s]@r%d", tag, labels[k], retOrd), terms[k], en.Src)
			}
			continue
		}
		t, err := env.EvalBool(en.E)
		if err != nil {
			sfail("ensures %q: %v", en.Src, err)
		}
		vc.curClause = en.E
		vc.oblige(st, "post", fmt.Sprintf("%s@r%d", tag, retOrd), t, en.Src)
		vc.curClause = nil
	}
	for i, pw := range c.PanicsWhen {
		pe := vc.baseEnv(vc.entry)
		pe.old = nil
		t, err := pe.EvalBool(pw.E)
		if err != nil {
			sfail("panics when %q: %v", pw.Src, err)
		}
		vc.oblige(st, "must-panic", fmt.Sprintf("%d@r%d", i, retOrd), not(t), "returns normally although: "+pw.Src)
	}
	if c.HasMod {
		vc.frameObligations(st, retOrd)
	}
}

func (vc *VC) doPanic(st *State, x *ssa.Panic) {
	c := vc.contract
	if c != nil && len(c.PanicsWhen) > 0 {
		pe := vc.baseEnv(vc.entry)
		pe.old = nil
		var alts []Term
		for _, pw := range c.PanicsWhen {
			t, err := pe.EvalBool(pw.E)
			if err != nil {
				sfail("panics when %q: %v", pw.Src, err)
			}
			alts = append(alts, t)
		}
		vc.oblige(st, "panic-allowed", "", or(alts...), "explicit panic outside the declared conditions")
		return
	}
	vc.oblige(st, "unreachable", "", "false", "explicit panic reachable")
}
