package main

// usesCall reports whether expression x contains a call of the spec builtin `fn`.
func usesCall(x Expr, fn string) bool {
	found := false
	var walk func(e Expr)
	walk = func(e Expr) {
		if found || e == nil {
			return
		}
		switch n := e.(type) {
		case *ECall:
			if n.Fn == fn {
				found = true
				return
			}
			for _, a := range n.Args {
				walk(a)
			}
		case *EUn:
			walk(n.X)
		case *EBin:
			walk(n.X)
			walk(n.Y)
		case *ESel:
			walk(n.X)
		case *EIndex:
			walk(n.X)
			walk(n.I)
		case *ESlice:
			walk(n.X)
			walk(n.Lo)
			walk(n.Hi)
		case *EQuant:
			walk(n.Lo)
			walk(n.Hi)
			walk(n.Body)
		case *ETypeAssert:
			walk(n.X)
		}
	}
	walk(x)
	return found
}
