package main

// Calls: builtins, contract application (modular: only the callee's contract is used),
// opaque calls, frames.

import (
	"fmt"
	"go/types"
	"math/big"
	"os"
	"sort"
	"strings"

	"golang.org/x/tools/go/ssa"
)

func (vc *VC) call(st *State, x *ssa.Call) {
	var aname string
	var aord int
	var aargs []Val
	if vc.callPC == nil {
		vc.callPC = map[ssa.Instruction]Term{}
	}
	vc.callPC[x] = st.cfOr() // `called(NAME, N)`: this execution reaches the call (control-flow condition)
	hasAnchors := vc.contract != nil && len(vc.contract.Asserts) > 0
	if hasAnchors {
		c := x.Common()
		aname = callDisplayName(c)
		aord = vc.callOrd[x]
		if c.IsInvoke() {
			aargs = append(aargs, vc.value(c.Value))
		}
		for _, a := range c.Args {
			aargs = append(aargs, vc.value(a))
		}
		vc.runAnchors(st, "before", x, aname, aord, aargs, nil)
	}
	res := vc.callCommon(st, x.Common(), x.Type(), x)
	if hasAnchors {
		vc.runAnchors(st, "after", x, aname, aord, aargs, &res)
	}
	if x.Type() != nil {
		if tp, ok := x.Type().(*types.Tuple); ok && tp.Len() == 0 {
			vc.vals[x] = Val{K: KUnit}
			return
		}
	}
	res.T = x.Type()
	if res.K == KTuple {
		for i := range res.Fs {
			res.Fs[i] = vc.nameVal(fmt.Sprintf("v.%s.%d", x.Name(), i), res.Fs[i])
		}
		vc.vals[x] = res
		return
	}
	vc.vals[x] = vc.nameVal("v."+x.Name(), res)
}

func (vc *VC) callCommon(st *State, c *ssa.CallCommon, rt types.Type, site ssa.Instruction) Val {
	saved := vc.curCall
	vc.curCall = c
	defer func() { vc.curCall = saved }()
	if b, ok := c.Value.(*ssa.Builtin); ok {
		return vc.builtin(st, b, c, rt)
	}
	var args []Val
	if c.IsInvoke() {
		recv := vc.value(c.Value)
		args = append(args, recv)
		for _, a := range c.Args {
			args = append(args, vc.value(a))
		}
		return vc.invoke(st, c, args, rt)
	}
	for _, a := range c.Args {
		args = append(args, vc.value(a))
	}
	if fn := c.StaticCallee(); fn != nil {
		if mc, ok := c.Value.(*ssa.MakeClosure); ok {
			// direct call of a closure: bind free variables
			var fvs []Val
			for _, b := range mc.Bindings {
				fvs = append(fvs, vc.value(b))
			}
			return vc.callFunction(st, fn, args, fvs, rt)
		}
		return vc.callFunction(st, fn, args, nil, rt)
	}
	// dynamic call through a function value
	fv := vc.value(c.Value)
	if cl, ok := vc.closures[fv.S]; ok && fv.S != "" {
		return vc.callFunction(st, cl.fn, args, cl.bindings, rt)
	}
	if vc.assumedPure(callDisplayName(c)) {
		return vc.pureOpaqueResult(st, rt, callDisplayName(c))
	}
	vc.opaqueCalls["<function value> "+callDisplayName(c)] = true
	return vc.opaqueResult(st, rt, "dyn")
}

func (vc *VC) assumedPure(name string) bool {
	if vc.contract == nil {
		return false
	}
	for _, n := range vc.contract.AssumePure {
		if n == name {
			return true
		}
	}
	return false
}

// pureOpaqueResult: unconstrained result, no heap effect (an explicit assumption of the contract).
func (vc *VC) pureOpaqueResult(st *State, rt types.Type, name string) Val {
	vc.assumptions["calls named "+name+" are assumed not to modify the heap visible to "+vc.key+" (assume-pure)"] = true
	na := vc.fresh("alloc")
	vc.declare(na, "Int")
	vc.assume(st, app("<=", st.alloc, na))
	st.alloc = na
	if rt == nil {
		return Val{K: KUnit}
	}
	if tp, ok := rt.(*types.Tuple); ok && tp.Len() == 0 {
		return Val{K: KUnit}
	}
	return vc.freshVal(st, rt, "r."+name)
}

func (vc *VC) opaqueResult0(st *State, rt types.Type, what string) Val {
	if vc.curCall != nil && vc.fn != nil && os.Getenv("GOVC_NO_EFFECTS") == "" {
		// computed write effects of the callee(s): havoc exactly those components
		eff := &effectSet{comps: map[string]bool{}}
		vc.G.effects().callEffects(vc.fn, vc.curCall, eff)
		if !eff.top {
			for _, comp := range eff.sorted() {
				if _, known := vc.compSort[comp]; known {
					vc.heapHavoc(st, comp)
					vc.heapTypingAxioms(st, comp)
				} else {
					if st.dirty == nil {
						st.dirty = map[string]bool{}
					}
					st.dirty[comp] = true
					delete(st.heap, comp)
				}
			}
			for comp := range eff.comps {
				if vc.touched != nil {
					vc.touched[comp] = true
				}
				if strings.HasPrefix(comp, "map:") {
					vc.clobberMaps("")
				}
			}
			na := vc.fresh("alloc")
			vc.declare(na, "Int")
			vc.assume(st, app("<=", st.alloc, na))
			st.alloc = na
			vc.assumptions["uncontracted callee "+what+": heap components outside its computed write effect are unchanged (effect analysis, "+fmt.Sprint(len(eff.comps))+" components)"] = true
			if rt == nil {
				return Val{K: KUnit}
			}
			if tp, ok := rt.(*types.Tuple); ok && tp.Len() == 0 {
				return Val{K: KUnit}
			}
			return vc.freshVal(st, rt, "r."+what)
		}
	}
	vc.havocAll(st)
	if rt == nil {
		return Val{K: KUnit}
	}
	if tp, ok := rt.(*types.Tuple); ok && tp.Len() == 0 {
		return Val{K: KUnit}
	}
	return vc.freshVal(st, rt, "r."+what)
}

func (vc *VC) opaqueResult(st *State, rt types.Type, what string) Val {
	var res Val
	vc.keepPrivateCells(st, func() { res = vc.opaqueResult0(st, rt, what) })
	return res
}

func (vc *VC) lookupContract(fn *ssa.Function) *Contract {
	k := funcKey(fn)
	if c, ok := vc.G.contracts.Funcs[k]; ok {
		return c
	}
	if p := fnPackage(fn); p != nil {
		// full path form: crypto/rand.Read
		alt := p.Path() + strings.TrimPrefix(k, p.Name())
		if c, ok := vc.G.contracts.Funcs[alt]; ok {
			return c
		}
	}
	return nil
}

func (vc *VC) callFunction(st *State, fn *ssa.Function, args []Val, fvs []Val, rt types.Type) Val {
	key := funcKey(fn)
	// synchronisation primitives: no-ops for sequential reasoning
	switch key {
	case "sync.(*Mutex).Lock", "sync.(*Mutex).Unlock", "sync.(*RWMutex).Lock", "sync.(*RWMutex).Unlock",
		"sync.(*RWMutex).RLock", "sync.(*RWMutex).RUnlock":
		if vc.contract != nil && vc.contract.TrackLocks && len(args) > 0 && args[0].K == KPtr && args[0].S != "" {
			// lock discipline: ghost(lockst, m) is 0 (free), 1 (read-locked) or 2 (locked)
			v := "0"
			switch {
			case strings.HasSuffix(key, ".RLock"):
				v = "1"
			case strings.HasSuffix(key, ".Lock"):
				v = "2"
			}
			comp := "ghost:lockst"
			if _, ok := vc.compSort[comp]; !ok {
				vc.compSort[comp] = "(Array Int Int)"
				vc.compMeta[comp] = compMetaT{kind: LGhost, t: specInt}
			}
			h := vc.heapGet(st, comp, "(Array Int Int)")
			vc.heapSet(st, comp, "(Array Int Int)", store(h, args[0].S, v))
			vc.assumptions["mutex operations only update the ghost lock state (sequential reasoning; no interleavings)"] = true
			return Val{K: KUnit}
		}
		vc.assumptions["mutex operations are no-ops (sequential reasoning only)"] = true
		return Val{K: KUnit}
	}
	c := vc.lookupContract(fn)
	if c != nil && vc.contract != nil {
		for _, o := range vc.contract.Opaque {
			if o == key {
				c = nil
			}
		}
	}
	if c == nil {
		if r, ok := vc.nativeModel(st, fn, key, args, rt); ok {
			return r
		}
		if vc.assumedPure(baseName(fn)) {
			return vc.pureOpaqueResult(st, rt, baseName(fn))
		}
		vc.opaqueCalls[key] = true
		return vc.opaqueResult(st, rt, baseName(fn))
	}
	if c.Trusted {
		vc.trustedUsed[key] = true
	}
	names := make([]string, len(fn.Params))
	for i, p := range fn.Params {
		names[i] = p.Name()
	}
	var fvNames []string
	for _, f := range fn.FreeVars {
		fvNames = append(fvNames, f.Name())
	}
	return vc.applyContract(st, c, key, fn.Signature, fnPackage(fn), names, args, fvNames, fvs, rt)
}

func shortKey(k string) string {
	if i := strings.Index(k, "."); i >= 0 {
		return k[i+1:]
	}
	return k
}

// applyContract: assert requires, havoc modifies, assume ensures.
func (vc *VC) applyContract(st *State, c *Contract, key string, sig *types.Signature, pkg *types.Package,
	names []string, args []Val, fvNames []string, fvs []Val, rt types.Type) Val {
	site := vc.nextOrdinal("call:" + key)
	pre := st.clone()
	env := &Env{vc: vc, st: st, old: nil, vars: map[string]Val{}, pkg: pkg}
	for i, a := range args {
		if i < len(names) {
			if i < sig.Params().Len()+boolToInt(sig.Recv() != nil) {
				a.T = paramType(sig, i)
			}
			if a.K == KPtr && kindOf(a.T) == KSlice {
				a = vc.zeroVal(a.T)
			}
			if a.K == KPtr && kindOf(a.T) == KIface {
				a = vc.zeroVal(a.T)
			}
			env.vars[names[i]] = a
		}
		env.vars[fmt.Sprintf("$%d", i)] = a
	}
	if c.Interface && len(args) > 0 {
		env.vars["self"] = args[0]
	}
	for i, f := range fvs {
		env.vars[fvNames[i]] = f
	}
	for _, l := range c.Lets {
		v, err := env.EvalVal(l.E)
		if err != nil {
			sfail("call %s: let %s: %v", key, l.Name, err)
		}
		env.vars[l.Name] = v
	}
	for i, r := range c.Requires {
		t, err := env.EvalBool(r.E)
		if err != nil {
			sfail("call %s: requires %q: %v", key, r.Src, err)
		}
		tag := r.Tag
		if tag == "" {
			tag = fmt.Sprint(i)
		}
		vc.oblige(st, "pre", fmt.Sprintf("%s.%s#%d", shortKey(key), tag, site), t, "precondition of "+key+": "+r.Src)
	}
	if len(c.PanicsWhen) > 0 {
		for i, pw := range c.PanicsWhen {
			t, err := env.EvalBool(pw.E)
			if err != nil {
				sfail("call %s: panics when %q: %v", key, pw.Src, err)
			}
			// a panic of the callee is allowed only where the caller declares one itself
			allowed := Term("false")
			if vc.contract != nil && len(vc.contract.PanicsWhen) > 0 {
				pe := vc.baseEnv(vc.entry)
				pe.old = nil
				var alts []Term
				for _, cpw := range vc.contract.PanicsWhen {
					ct, err := pe.EvalBool(cpw.E)
					if err != nil {
						sfail("panics when %q: %v", cpw.Src, err)
					}
					alts = append(alts, ct)
				}
				allowed = or(alts...)
			}
			vc.oblige(st, "callee-panic", fmt.Sprintf("%s.%d#%d", shortKey(key), i, site), implies(t, allowed), key+" panics when "+pw.Src)
			vc.assume(st, not(t))
		}
	}
	// effects
	if !c.HasMod {
		vc.keepPrivateCells(st, func() { vc.havocAll(st) })
		vc.assumptions["callee "+key+" has no modifies clause: all heap components havocked at the call"] = true
	} else {
		// the callee may allocate: advance the watermark first, so that havocked locations may
		// hold objects allocated by the callee
		if !c.Pure {
			na := vc.fresh("alloc")
			vc.declare(na, "Int")
			vc.assume(st, app("<=", st.alloc, na))
			st.alloc = na
		}
		for _, m := range c.Modifies {
			vc.havocModLoc(st, env, m, key)
		}
	}
	// results
	var res Val
	nres := sig.Results().Len()
	post := &Env{vc: vc, st: st, old: pre, vars: env.vars, pkg: pkg}
	post.vars = map[string]Val{}
	for k, v := range env.vars {
		post.vars[k] = v
	}
	switch {
	case nres == 0:
		res = Val{K: KUnit}
	case nres == 1:
		res = vc.freshVal(st, sig.Results().At(0).Type(), "r."+shortKey(key))
		post.vars["ret"] = res
		post.vars["ret0"] = res
		if n := sig.Results().At(0).Name(); n != "" && n != "_" {
			if _, clash := post.vars[n]; !clash {
				post.vars[n] = res
			}
		}
	default:
		res = vc.freshVal(st, sig.Results(), "r."+shortKey(key))
		for i := 0; i < nres; i++ {
			post.vars[fmt.Sprintf("ret%d", i)] = res.Fs[i]
			if n := sig.Results().At(i).Name(); n != "" && n != "_" {
				if _, clash := post.vars[n]; !clash {
					post.vars[n] = res.Fs[i]
				}
			}
		}
	}
	for _, en := range c.Ensures {
		if usesCall(en.E, "callres") || usesCall(en.E, "callarg") || usesCall(en.E, "called") || usesCall(en.E, "keys") || usesCall(en.E, "nocall") || usesCall(en.E, "deferred") {
			continue // internal clause (own call sites / own literal tables): not part of the interface
		}
		if vc.contract != nil && vc.contract.Use != nil {
			if tags, ok := vc.contract.Use[lastName(key)]; ok && !containsStr(tags, en.Tag) {
				continue // the caller's contract selects the postconditions it relies on
			}
		}
		t, err := post.EvalBool(en.E)
		if err != nil {
			sfail("call %s: ensures %q: %v", key, en.Src, err)
		}
		vc.assume(st, t)
	}
	return res
}

func boolToInt(b bool) int {
	if b {
		return 1
	}
	return 0
}

func paramType(sig *types.Signature, i int) types.Type {
	if sig.Recv() != nil {
		if i == 0 {
			return sig.Recv().Type()
		}
		i--
	}
	if sig.Variadic() && i >= sig.Params().Len()-1 {
		return sig.Params().At(sig.Params().Len() - 1).Type()
	}
	return sig.Params().At(i).Type()
}

// ---------- modifies ----------

type modTarget struct {
	loc    *Loc       // leaf location (non-struct pointee)
	obj    Term       // struct object id (all fields) when loc == nil and region == false
	objT   types.Type // struct type
	region bool
	sl     Val  // slice whose contents [lo,hi) are modified
	lo, hi Term // relative to the slice
	ghostAll string // whole ghost component (all keys)
	isMap  bool // the contents of map object mapID (of map type mapT) are modified
	mapID  Term
	mapT   types.Type
}

// evalModLoc resolves a modifies-expression to a target in the given environment.
func (e *Env) evalModLoc(x Expr) modTarget {
	vc := e.vc
	switch n := x.(type) {
	case *ECall:
		if n.Fn == "ghost" {
			return modTarget{loc: e.ghostLoc(n)}
		}
		if n.Fn == "ghostall" && len(n.Args) == 1 {
			// ghostall(name): the ghost component `name` of every object
			if id, ok := n.Args[0].(*EIdent); ok {
				return modTarget{ghostAll: "ghost:" + id.Name}
			}
			sfail("ghostall(name)")
		}
		if n.Fn == "contents" && len(n.Args) == 1 {
			// contents(m): the entries of the map m denotes (not the variable/field holding m)
			v := e.eval(n.Args[0])
			if v.K != KMap {
				sfail("contents(m) needs a map")
			}
			return modTarget{isMap: true, mapID: v.S, mapT: v.T}
		}
		if n.Fn == "region" {
			b := e.eval(n.Args[0])
			lo := e.eval(n.Args[1])
			hi := e.eval(n.Args[2])
			if b.K != KSlice {
				sfail("modifies region of non-slice")
			}
			return modTarget{region: true, sl: b, lo: lo.S, hi: hi.S}
		}
	case *EUn:
		if n.Op == "*" {
			p := e.eval(n.X)
			pt := derefType(p.T)
			if pt == nil {
				sfail("modifies *p: p is not a typed pointer")
			}
			if kindOf(pt) == KStruct {
				return modTarget{obj: p.S, objT: pt}
			}
			if kindOf(pt) == KArray {
				sfail("modifies *p of array type: use a region")
			}
			l := p.Loc
			if l == nil {
				l = &Loc{Kind: LDeref, Base: p.S, T: pt}
			}
			return modTarget{loc: l}
		}
	case *ESel:
		base := e.eval(n.X)
		t := base.T
		if base.K == KPtr {
			t = derefType(base.T)
		} else if !(base.K == KStruct && base.Fs == nil) {
			sfail("modifies %s: base is not a pointer", n.Name)
		}
		idx := findFieldPath(t, n.Name)
		if idx == nil {
			sfail("modifies: no field %s", n.Name)
		}
		id := base.S
		cur := t
		for k, fi := range idx {
			ft := structOf(cur).Field(fi).Type()
			if k == len(idx)-1 {
				if kindOf(ft) == KStruct {
					return modTarget{obj: vc.subPtr(cur, fi, id), objT: ft}
				}
				if kindOf(ft) == KArray {
					at := ft.Underlying().(*types.Array)
					sl := Val{T: types.NewSlice(at.Elem()), K: KSlice, Sl: [4]Term{vc.subPtr(cur, fi, id), "0", num(at.Len()), num(at.Len())}}
					return modTarget{region: true, sl: sl, lo: "0", hi: num(at.Len())}
				}
				return modTarget{loc: &Loc{Kind: LField, Base: id, ST: cur, Field: fi, T: ft}}
			}
			if kindOf(ft) != KStruct {
				sfail("modifies: path through non-struct field")
			}
			id = vc.subPtr(cur, fi, id)
			cur = ft
		}
	case *EIdent:
		v := e.eval(n)
		if v.K == KSlice {
			return modTarget{region: true, sl: v, lo: "0", hi: v.Sl[2]}
		}
		if v.K == KPtr && derefType(v.T) != nil && kindOf(derefType(v.T)) == KStruct {
			return modTarget{obj: v.S, objT: derefType(v.T)}
		}
		// package-level variable
		if obj := e.pkg.Scope().Lookup(n.Name); obj != nil {
			if gv, ok := obj.(*types.Var); ok {
				return modTarget{loc: &Loc{Kind: LGlobal, Glob: vc.globalName(gv), T: gv.Type()}}
			}
		}
	case *EIndex:
		b := e.eval(n.X)
		i := e.eval(n.I)
		if b.K == KSlice {
			return modTarget{region: true, sl: b, lo: i.S, hi: app("+", i.S, "1")}
		}
	}
	// a map-valued expression: the contents of that map
	if v, err := e.EvalVal(x); err == nil && v.K == KMap {
		return modTarget{isMap: true, mapID: v.S, mapT: v.T}
	}
	sfail("unsupported modifies target")
	return modTarget{}
}

func (vc *VC) havocModLoc(st *State, env *Env, m ModLoc, key string) {
	pre := env.inState(st)
	tg := func() (t modTarget) {
		defer func() {
			if r := recover(); r != nil {
				if se, ok := r.(specError); ok {
					sfail("call %s: modifies %s: %s", key, m.Src, se.msg)
				}
				panic(r)
			}
		}()
		return pre.evalModLoc(m.E)
	}()
	vc.havocTarget(st, tg)
}

func (vc *VC) havocTarget(st *State, tg modTarget) {
	switch {
	case tg.ghostAll != "":
		if _, ok := vc.compSort[tg.ghostAll]; !ok {
			vc.compSort[tg.ghostAll] = "(Array Int Int)"
			vc.compMeta[tg.ghostAll] = compMetaT{kind: LGhost, t: specInt}
		}
		vc.heapHavoc(st, tg.ghostAll)
	case tg.isMap:
		_, vt, _, ok := vc.mapComps(tg.mapT)
		if !ok {
			vc.unsupportedf("modifies map of unsupported type %s", tg.mapT)
			vc.havocAll(st)
			return
		}
		mid := vc.patAtom(tg.mapID, "Int")
		leaves := []struct{ suffix, sort string }{{".has", "Bool"}}
		for _, lf := range leavesOf(vt) {
			leaves = append(leaves, struct{ suffix, sort string }{".val" + lf.Path, lf.Sort})
		}
		for _, l := range leaves {
			name, _, h := vc.mapHeap(st, tg.mapT, l.suffix, l.sort)
			nh := vc.heapHavoc(st, name)
			vc.axiom(fmt.Sprintf("(forall ((o Int)) (! (=> (not (= o %s)) (= (select %s o) (select %s o))) :pattern ((select %s o))))", mid, nh, h, nh))
		}
	case tg.region:
		et := tg.sl.T.Underlying().(*types.Slice).Elem()
		if k := kindOf(et); k == KStruct || k == KArray {
			vc.unsupportedf("modifies region over slice of structs")
			vc.havocAll(st)
			return
		}
		l := &Loc{Kind: LElem, T: et}
		for _, lf := range leavesOf(et) {
			name, srt := vc.regComp(l, lf)
			h := vc.heapGet(st, name, srt)
			nh := vc.heapHavoc(st, name)
			vc.heapTypingAxioms(st, name)
			arr, off := vc.patAtom(tg.sl.Sl[0], "Int"), tg.sl.Sl[1]
			lo, hi := app("+", off, tg.lo), app("+", off, tg.hi)
			vc.axiom(fmt.Sprintf("(forall ((a Int)) (! (=> (not (= a %s)) (= (select %s a) (select %s a))) :pattern ((select %s a))))", arr, nh, h, nh))
			vc.axiom(fmt.Sprintf("(forall ((i Int)) (! (=> (not (and (<= %s i) (< i %s))) (= (select (select %s %s) i) (select (select %s %s) i))) :pattern ((select (select %s %s) i))))",
				lo, hi, nh, arr, h, arr, nh, arr))
		}
	case tg.loc != nil:
		v := vc.freshVal(st, tg.loc.T, "mod")
		vc.storeLoc(st, tg.loc, v)
	default:
		v := vc.freshVal(st, tg.objT, "mod")
		vc.storeStruct(st, tg.obj, v)
	}
}

// frameObligations: at a return of a function with a modifies clause, everything outside
// the declared targets that existed at entry is unchanged.
func (vc *VC) frameObligations(st *State, retOrd int) {
	for _, fc := range vc.frameConds(st) {
		vc.oblige(st, "frame", fmt.Sprintf("%s@r%d", fc.comp, retOrd), fc.cond, fc.descr)
	}
}

type frameCond struct {
	comp  string
	cond  Term
	descr string
}

// frameConds returns, per heap component that differs from the entry state, the condition
// "unchanged outside the function's modifies targets for objects that existed at entry".
func (vc *VC) frameConds(st *State) []frameCond {
	c := vc.contract
	var out []frameCond
	env := vc.baseEnv(vc.entry)
	env.old = nil
	var targets []modTarget
	for _, m := range c.Modifies {
		func() {
			defer func() {
				if r := recover(); r != nil {
					if se, ok := r.(specError); ok {
						sfail("modifies %s: %s", m.Src, se.msg)
					}
					panic(r)
				}
			}()
			targets = append(targets, env.evalModLoc(m.E))
		}()
	}
	var comps []string
	for comp := range st.heap {
		comps = append(comps, comp)
	}
	sort.Strings(comps)
	if st.ep != vc.entry.ep {
		return []frameCond{{"all", "false", "function with a modifies clause calls code with unknown effects"}}
	}
	for _, comp := range comps {
		cur := st.heap[comp]
		base := vc.heapGet(vc.entry, comp, vc.compSort[comp])
		if cur == base {
			continue
		}
		wholly := false
		for _, t := range targets {
			if t.ghostAll == comp {
				wholly = true
			}
		}
		if wholly {
			continue
		}
		cur = vc.patAtom(cur, vc.compSort[comp])
		meta := vc.compMeta[comp]
		if meta.part == "map" {
			// maps: object-level frame
			vc.counter++
			o := fmt.Sprintf("fo!%d", vc.counter)
			var mexcl []Term
			for _, t := range targets {
				if t.isMap && strings.HasPrefix(comp, "map:"+typeKey(t.mapT)+".") {
					mexcl = append(mexcl, eq(o, t.mapID))
				}
			}
			cond := fmt.Sprintf("(forall ((%s Int)) (=> (and (<= 0 %s) (< %s alloc0) %s) (= (select %s %s) (select %s %s))))", o, o, o, not(or(mexcl...)), cur, o, base, o)
			out = append(out, frameCond{comp, cond, "map contents outside modifies changed: " + comp})
			continue
		}
		vc.counter++
		o := fmt.Sprintf("fo!%d", vc.counter)
		i := fmt.Sprintf("fi!%d", vc.counter)
		var excl []Term
		switch meta.kind {
		case LField, LDeref, LGhost:
			for _, t := range targets {
				if t.region {
					continue
				}
				if t.loc != nil {
					lc, _ := vc.locComp(t.loc)
					if t.loc.Kind == meta.kind && strings.HasPrefix(comp, lc) && isLeafOf(comp, lc, t.loc.T) {
						excl = append(excl, eq(o, t.loc.Base))
					}
				} else if meta.kind == LField && !t.isMap && t.objT != nil {
					// whole struct object: all its direct non-struct fields
					if strings.HasPrefix(comp, typeKey(t.objT)+".") {
						excl = append(excl, eq(o, t.obj))
					}
					// nested by-value structs
					for _, sub := range vc.nestedObjs(t.objT, t.obj) {
						if strings.HasPrefix(comp, typeKey(sub.t)+".") {
							excl = append(excl, eq(o, sub.id))
						}
					}
				}
			}
			cond := fmt.Sprintf("(forall ((%s Int)) (! (=> (and (< (rt %s) alloc0) %s) (= (select %s %s) (select %s %s))) :pattern ((select %s %s))))",
				o, o, not(or(excl...)), cur, o, base, o, cur, o)
			vc.ensureRt()
			out = append(out, frameCond{comp, cond, "heap component changed outside modifies: " + comp})
		case LElem:
			for _, t := range targets {
				if !t.region {
					continue
				}
				et := t.sl.T.Underlying().(*types.Slice).Elem()
				if k := kindOf(et); k == KStruct || k == KArray {
					continue
				}
				lc, _ := vc.locComp(&Loc{Kind: LElem, T: et})
				if !(strings.HasPrefix(comp, lc) && isLeafOf(comp, lc, et)) {
					continue
				}
				excl = append(excl, and(eq(o, t.sl.Sl[0]), app("<=", app("+", t.sl.Sl[1], t.lo), i), app("<", i, app("+", t.sl.Sl[1], t.hi))))
			}
			cond := fmt.Sprintf("(forall ((%s Int) (%s Int)) (! (=> (and (< (rt %s) alloc0) %s) (= (select (select %s %s) %s) (select (select %s %s) %s))) :pattern ((select (select %s %s) %s))))",
				o, i, o, not(or(excl...)), cur, o, i, base, o, i, cur, o, i)
			vc.ensureRt()
			out = append(out, frameCond{comp, cond, "slice contents changed outside modifies: " + comp})
		case LGlobal:
			allowed := false
			for _, t := range targets {
				if t.loc != nil && t.loc.Kind == LGlobal && strings.HasPrefix(comp, "glob:"+t.loc.Glob) {
					allowed = true
				}
			}
			if !allowed {
				out = append(out, frameCond{comp, eq(cur, base), "global changed outside modifies: " + comp})
			}
		}
	}
	return out
}

func isLeafOf(comp, prefix string, t types.Type) bool {
	rest := comp[len(prefix):]
	if k := kindOf(t); k == KStruct || k == KArray {
		return false
	}
	for _, lf := range leavesOf(t) {
		if lf.Path == rest {
			return true
		}
	}
	return false
}

type nestedObj struct {
	t  types.Type
	id Term
}

func (vc *VC) nestedObjs(t types.Type, id Term) []nestedObj {
	var out []nestedObj
	s := structOf(t)
	for i := 0; i < s.NumFields(); i++ {
		ft := s.Field(i).Type()
		if kindOf(ft) == KStruct {
			sid := vc.subPtr(t, i, id)
			out = append(out, nestedObj{ft, sid})
			out = append(out, vc.nestedObjs(ft, sid)...)
		}
	}
	return out
}

// ---------- interface method calls ----------

func (vc *VC) invoke(st *State, c *ssa.CallCommon, args []Val, rt types.Type) Val {
	it := c.Value.Type()
	key := ""
	if n, ok := it.(*types.Named); ok {
		pn := ""
		if n.Obj().Pkg() != nil {
			pn = n.Obj().Pkg().Name() + "."
		}
		key = pn + n.Obj().Name() + "." + c.Method.Name()
	} else {
		key = "iface." + c.Method.Name()
	}
	recv := args[0]
	vc.oblige(st, "nil", "", not(eq(recv.If[0], "0")), "method call on nil interface")
	ct, ok := vc.G.contracts.Funcs[key]
	if !ok {
		ct, ok = vc.G.contracts.Funcs["tls."+key]
	}
	if !ok {
		if vc.assumedPure(c.Method.Name()) {
			return vc.pureOpaqueResult(st, rt, c.Method.Name())
		}
		vc.opaqueCalls[key] = true
		return vc.opaqueResult(st, rt, c.Method.Name())
	}
	if ct.Trusted {
		vc.trustedUsed[key] = true
	}
	sig := c.Method.Type().(*types.Signature)
	names := []string{"self"}
	for i := 0; i < sig.Params().Len(); i++ {
		n := sig.Params().At(i).Name()
		if n == "" || n == "_" {
			n = fmt.Sprintf("$p%d", i)
		}
		names = append(names, n)
	}
	// signature with receiver omitted: build a pseudo signature for paramType
	return vc.applyContractIface(st, ct, key, sig, c.Method.Pkg(), names, args, rt)
}

func (vc *VC) applyContractIface(st *State, c *Contract, key string, sig *types.Signature, pkg *types.Package, names []string, args []Val, rt types.Type) Val {
	if pkg == nil {
		pkg = vc.pkg()
	}
	// prepend receiver: types of args are taken from the values themselves
	wrapped := types.NewSignatureType(types.NewVar(0, pkg, "self", args[0].T), nil, nil, sig.Params(), sig.Results(), sig.Variadic())
	return vc.applyContract(st, c, key, wrapped, pkg, names, args, nil, nil, rt)
}

// ---------- builtins ----------

func (vc *VC) builtin(st *State, b *ssa.Builtin, c *ssa.CallCommon, rt types.Type) Val {
	var args []Val
	for _, a := range c.Args {
		args = append(args, vc.value(a))
	}
	switch b.Name() {
	case "len":
		a := args[0]
		switch a.K {
		case KSlice:
			return Val{T: rt, K: KInt, S: a.Sl[2]}
		case KStr:
			vc.ensureStr()
			return Val{T: rt, K: KInt, S: app("strlen", a.S)}
		case KPtr:
			if kindOf(c.Args[0].Type()) == KSlice {
				return Val{T: rt, K: KInt, S: "0", C: bigZero()}
			}
			if at, ok := derefType2(c.Args[0].Type()).Underlying().(*types.Array); ok {
				return Val{T: rt, K: KInt, S: num(at.Len())}
			}
		case KArray:
			return Val{T: rt, K: KInt, S: num(a.T.Underlying().(*types.Array).Len())}
		case KMap:
			n := vc.mapLen(st, a)
			vc.assume(st, app("<=", "0", n))
			return Val{T: rt, K: KInt, S: n}
		}
	case "cap":
		a := args[0]
		if a.K == KSlice {
			return Val{T: rt, K: KInt, S: a.Sl[3]}
		}
		if a.K == KPtr && kindOf(c.Args[0].Type()) == KSlice {
			return Val{T: rt, K: KInt, S: "0"}
		}
	case "append":
		return vc.appendBuiltin(st, c, args, rt)
	case "copy":
		return vc.copyBuiltin(st, c, args, rt)
	case "min", "max":
		op := "<="
		if b.Name() == "max" {
			op = ">="
		}
		r := args[0]
		for _, a := range args[1:] {
			r = Val{T: rt, K: KInt, S: ite(app(op, r.S, a.S), r.S, a.S)}
		}
		return r
	case "print", "println":
		return Val{K: KUnit}
	case "close":
		vc.assumptions["channel close modelled as no-op (sequential reasoning only)"] = true
		return Val{K: KUnit}
	case "delete":
		m := args[0]
		k := args[1]
		if _, _, _, ok := vc.mapComps(c.Args[0].Type()); ok {
			name, srt, h := vc.mapHeap(st, c.Args[0].Type(), ".has", "Bool")
			vc.heapSet(st, name, srt, store(h, m.S, store(sel(h, m.S), k.S, "false")))
			vc.clobberMaps(typeKey(c.Args[0].Type()))
			return Val{K: KUnit}
		}
	case "recover":
		vc.assumptions["recover() returns an unconstrained value"] = true
		return vc.freshVal(st, rt, "recover")
	}
	vc.unsupportedf("builtin %s on %v", b.Name(), c.Args)
	return vc.opaqueResult(st, rt, b.Name())
}

func (vc *VC) appendBuiltin(st *State, c *ssa.CallCommon, args []Val, rt types.Type) Val {
	s := args[0]
	st0 := c.Args[0].Type()
	if s.K != KSlice {
		s = vc.zeroVal(rt)
	}
	var et types.Type
	if sl, ok := rt.Underlying().(*types.Slice); ok {
		et = sl.Elem()
	} else {
		vc.unsupportedf("append on %s", st0)
		return vc.opaqueResult(st, rt, "append")
	}
	if k := kindOf(et); k == KStruct || k == KArray {
		return vc.appendStructs(st, c, args, rt, et)
	}
	var src Val
	srcIsStr := false
	if args[1].K == KStr {
		srcIsStr = true
		src = args[1]
	} else if args[1].K == KSlice {
		src = args[1]
	} else {
		src = vc.zeroVal(rt)
	}
	var n Term
	if srcIsStr {
		vc.ensureStr()
		n = app("strlen", src.S)
	} else {
		n = src.Sl[2]
	}
	newLen := vc.define("applen", "Int", app("+", s.Sl[2], n))
	fits := vc.define("appfits", "Bool", app("<=", newLen, s.Sl[3]))
	freshArr := vc.allocID(st)
	ncap := vc.fresh("appcap")
	vc.declare(ncap, "Int")
	vc.assume(st, and(app("<=", newLen, ncap), app("<=", ncap, bigNum(pow2(maxLenBits)))))
	rArr := vc.patAtom(ite(fits, s.Sl[0], freshArr), "Int")
	rOff := vc.define("appoff", "Int", ite(fits, s.Sl[1], "0"))
	rCap := vc.define("appcap", "Int", ite(fits, s.Sl[3], ncap))
	// a nil slice with nothing appended stays nil
	res := Val{T: rt, K: KSlice, Sl: [4]Term{rArr, rOff, newLen, rCap}}
	if args[1].K != KStr && args[1].K != KSlice {
		return s
	}
	l := &Loc{Kind: LElem, T: et}
	small := -1
	if !srcIsStr && isNumeral(n) && len(n) == 1 {
		small = int(n[0] - '0')
	}
	for _, lf := range leavesOf(et) {
		name, srt := vc.regComp(l, lf)
		h := vc.heapGet(st, name, srt)
		var srcAt func(j Term) Term
		if srcIsStr {
			srcAt = func(j Term) Term { return app("strat", src.S, j) }
		} else {
			srcAt = func(j Term) Term { return sel(sel(h, src.Sl[0]), vc.ix(src.Sl[1], j)) }
		}
		inner := "(Array Int " + lf.Sort + ")"
		if small >= 0 {
			// few elements: explicit stores, no quantified definition of the new heap
			inPlace := sel(h, s.Sl[0])
			na := vc.fresh("appcopy")
			vc.declare(na, inner)
			vc.axiom(fmt.Sprintf("(forall ((i Int)) (! (=> (and (<= 0 i) (< i %s)) (= (select %s i) (select (select %s %s) %s))) :pattern ((select %s i))))",
				s.Sl[2], na, h, s.Sl[0], vc.ix(s.Sl[1], "i"), na))
			moved := Term(na)
			for j := 0; j < small; j++ {
				x := srcAt(num(int64(j)))
				inPlace = store(inPlace, vc.ix(s.Sl[1], app("+", s.Sl[2], num(int64(j)))), x)
				moved = store(moved, app("+", s.Sl[2], num(int64(j))), x)
			}
			vc.heapSet(st, name, srt, ite(fits, store(h, s.Sl[0], inPlace), store(h, freshArr, moved)))
			continue
		}
		nh := vc.heapHavoc(st, name)
		vc.heapTypingAxioms(st, name)
		// other arrays unchanged
		vc.axiom(fmt.Sprintf("(forall ((a Int)) (! (=> (not (= a %s)) (= (select %s a) (select %s a))) :pattern ((select %s a))))", rArr, nh, h, nh))
		// contents of the result array
		i := "i"
		oldAt := sel(sel(h, s.Sl[0]), vc.ix(s.Sl[1], app("-", i, rOff)))
		inOld := and(app("<=", rOff, i), app("<", i, app("+", rOff, s.Sl[2])))
		inNew := and(app("<=", app("+", rOff, s.Sl[2]), i), app("<", i, app("+", rOff, newLen)))
		val := ite(inNew, srcAt(app("-", i, app("+", rOff, s.Sl[2]))), ite(inOld, oldAt, ite(fits, sel(sel(h, rArr), i), sel(sel(nh, rArr), i))))
		vc.axiom(fmt.Sprintf("(forall ((i Int)) (! (= (select (select %s %s) i) %s) :pattern ((select (select %s %s) i))))", nh, rArr, val, nh, rArr))
	}
	return res
}

// appendStructs: append for slices whose elements are struct objects (sub-object ids).
func (vc *VC) appendStructs(st *State, c *ssa.CallCommon, args []Val, rt types.Type, et types.Type) Val {
	return vc.appendStructsImpl(st, c, args, rt, et)
}

func (vc *VC) copyBuiltin(st *State, c *ssa.CallCommon, args []Val, rt types.Type) Val {
	dst, src := args[0], args[1]
	if dst.K != KSlice {
		return Val{T: rt, K: KInt, S: "0"}
	}
	et := c.Args[0].Type().Underlying().(*types.Slice).Elem()
	if k := kindOf(et); k == KStruct || k == KArray {
		if k == KStruct && src.K == KSlice {
			return vc.copyStructs(st, dst, src, et, rt)
		}
		vc.unsupportedf("copy of slice of arrays")
		return vc.opaqueResult(st, rt, "copy")
	}
	var n Term
	srcIsStr := src.K == KStr
	if srcIsStr {
		vc.ensureStr()
		n = app("strlen", src.S)
	} else if src.K == KSlice {
		n = src.Sl[2]
	} else {
		return Val{T: rt, K: KInt, S: "0"}
	}
	cnt := vc.define("copyn", "Int", ite(app("<=", dst.Sl[2], n), dst.Sl[2], n))
	dstArr := vc.patAtom(dst.Sl[0], "Int")
	l := &Loc{Kind: LElem, T: et}
	for _, lf := range leavesOf(et) {
		name, srt := vc.regComp(l, lf)
		h := vc.heapGet(st, name, srt)
		nh := vc.heapHavoc(st, name)
		vc.heapTypingAxioms(st, name)
		vc.axiom(fmt.Sprintf("(forall ((a Int)) (! (=> (not (= a %s)) (= (select %s a) (select %s a))) :pattern ((select %s a))))", dstArr, nh, h, nh))
		i := "i"
		rel := app("-", i, dst.Sl[1])
		var srcAt Term
		if srcIsStr {
			srcAt = app("strat", src.S, rel)
		} else {
			srcAt = sel(sel(h, src.Sl[0]), vc.ix(src.Sl[1], rel))
		}
		in := and(app("<=", dst.Sl[1], i), app("<", i, app("+", dst.Sl[1], cnt)))
		vc.axiom(fmt.Sprintf("(forall ((i Int)) (! (= (select (select %s %s) i) %s) :pattern ((select (select %s %s) i))))",
			nh, dstArr, ite(in, srcAt, sel(sel(h, dstArr), i)), nh, dstArr))
	}
	return Val{T: rt, K: KInt, S: cnt}
}

// ---------- closures and defers ----------

type closureInfo struct {
	fn       *ssa.Function
	bindings []Val
}

func (vc *VC) makeClosure(st *State, x *ssa.MakeClosure) {
	fn := x.Fn.(*ssa.Function)
	var bs []Val
	for _, b := range x.Bindings {
		bs = append(bs, vc.value(b))
	}
	id := vc.allocID(st)
	if vc.closures == nil {
		vc.closures = map[Term]closureInfo{}
	}
	vc.closures[id] = closureInfo{fn: fn, bindings: bs}
	vc.vals[x] = Val{T: x.Type(), K: KFunc, S: id}
}

func (vc *VC) doDefer(st *State, x *ssa.Defer) {
	if fn := x.Call.StaticCallee(); fn != nil {
		switch funcKey(fn) {
		case "sync.(*Mutex).Unlock", "sync.(*RWMutex).Unlock", "sync.(*RWMutex).RUnlock":
			if vc.contract == nil || !vc.contract.TrackLocks {
				vc.assumptions["mutex operations are no-ops (sequential reasoning only)"] = true
				return
			}
		}
	}
	// `deferred(NAME)`: this execution registered a deferred call of NAME
	{
		nm := ""
		if fn := x.Call.StaticCallee(); fn != nil {
			nm = lastName(funcKey(fn))
		}
		if nm != "" {
			if vc.deferCF == nil {
				vc.deferCF = map[string]Term{}
			}
			if old, ok := vc.deferCF[nm]; ok {
				vc.deferCF[nm] = or(old, st.cfOr())
			} else {
				vc.deferCF[nm] = st.cfOr()
			}
		}
	}
	st.defers = append(append([]deferEntry{}, st.defers...), deferEntry{d: x, guard: "true"})
}

type deferEntry struct {
	d     *ssa.Defer
	guard Term // the deferred call was registered on this execution
	args  []Val
}

// runDefers executes the registered deferred calls in LIFO order; a call registered only on some
// paths (conditional defer) is executed under its guard and the two outcomes are merged.
func (vc *VC) runDefers(st *State) {
	for i := len(st.defers) - 1; i >= 0; i-- {
		de := st.defers[i]
		if de.guard == "true" {
			vc.callCommon(st, &de.d.Call, de.d.Call.Signature().Results(), de.d)
			continue
		}
		yes := st.clone()
		yes.defers = nil
		vc.assume(yes, de.guard)
		yes.cf = and(st.cfOr(), de.guard)
		vc.callCommon(yes, &de.d.Call, de.d.Call.Signature().Results(), de.d)
		no := st.clone()
		no.defers = nil
		vc.assume(no, not(de.guard))
		no.cf = and(st.cfOr(), not(de.guard))
		m := vc.mergeStates([]*State{yes, no})
		st.heap, st.ep, st.alloc, st.pc = m.heap, m.ep, m.alloc, m.pc
	}
	st.defers = nil
}

func (vc *VC) declareUF(uf *UF) {
	for _, a := range append([]string{uf.Ret}, uf.Args...) {
		if a == "Str" {
			vc.ensureStr()
		}
	}
	vc.declareFun(uf.Name, uf.Args, uf.Ret)
}

func bigZero() *big.Int { return big.NewInt(0) }

// lastName: "tls.(*UConn).SetTLSVers" -> "SetTLSVers"
func lastName(key string) string {
	if i := strings.LastIndex(key, "."); i >= 0 {
		return key[i+1:]
	}
	return key
}

func containsStr(xs []string, x string) bool {
	for _, y := range xs {
		if y == x {
			return true
		}
	}
	return false
}
