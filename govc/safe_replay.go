package main

import "fmt"

// safeReplay runs a replay / witness search; a failure inside it (a value shape the replay
// generator cannot build) must never take the check down: the obligation is then reported
// without a replayed input.
func safeReplay(f func() *ReplayResult) (rep *ReplayResult) {
	defer func() {
		if r := recover(); r != nil {
			rep = &ReplayResult{Log: fmt.Sprintf("replay not possible: %v", r)}
		}
	}()
	return f()
}
