package main

import (
	"encoding/json"
	"flag"
	"fmt"
	"os"
	"path/filepath"
	"sort"
	"strings"
	"sync"
	"time"

	"golang.org/x/tools/go/ssa"
)

type OblResult struct {
	O      *Obligation
	R      SolverResult
	OK     bool
	Script string
	FR     *FuncResult
}

func buildScript(fr *FuncResult, o *Obligation) string {
	var b strings.Builder
	b.WriteString("(set-option :produce-models true)\n")
	// only what existed when the obligation was generated: later declarations and
	// definitional axioms talk about symbols the obligation cannot mention
	nd, na := o.NDecl, o.NAxiom
	if nd > len(fr.Decls) {
		nd = len(fr.Decls)
	}
	if na > len(fr.Axioms) {
		na = len(fr.Axioms)
	}
	decls, axioms := fr.Decls[:nd], fr.Axioms[:na]
	if os.Getenv("GOVC_NO_COI") == "" {
		ci := buildCOI(fr)
		decls, axioms = ci.sliceScript(append(symbolsOf(o.Guard), symbolsOf(o.Cond)...), nd, na)
	}
	for _, d := range decls {
		b.WriteString(d)
		b.WriteByte('\n')
	}
	for _, a := range axioms {
		b.WriteString(a)
		b.WriteByte('\n')
	}
	b.WriteString("(assert " + o.Guard + ")\n")
	if o.Cover {
		b.WriteString("(assert " + o.Cond + ")\n")
	} else {
		b.WriteString("(assert (not " + o.Cond + "))\n")
	}
	return b.String()
}

func discharge(frs []*FuncResult, timeout time.Duration, coverToo bool) []*OblResult {
	var out []*OblResult
	var mu sync.Mutex
	var wg sync.WaitGroup
	for _, fr := range frs {
		for _, o := range fr.Obls {
			if o.Cover && !coverToo {
				continue
			}
			fr, o := fr, o
			if !o.Cover && o.Cond == "true" {
				out = append(out, &OblResult{O: o, R: SolverResult{Status: "unsat", Solver: "trivial"}, OK: true})
				continue
			}
			wg.Add(1)
			go func() {
				defer wg.Done()
				script := buildScript(fr, o)
				to := timeout
				if o.Cover && to > 5*time.Second {
					to = 5 * time.Second
				}
				if o.Kind == "lemma" {
					to = 4 * timeout // pure arithmetic lemmas: few, and cvc5 needs a few seconds for some
				}
				var r SolverResult
				if o.Cover {
					// vacuity probe: one solver, short budget; anything but `unsat` means "not provably vacuous"
					r = SolveOne(script, 2*time.Second)
				} else {
					r = Solve(script, to, false)
				}
				ok := r.Status == "unsat"
				if o.Cover {
					ok = r.Status != "unsat" // sat or unknown: not provably vacuous
				}
				mu.Lock()
				out = append(out, &OblResult{O: o, R: r, OK: ok, Script: script, FR: fr})
				mu.Unlock()
			}()
		}
	}
	wg.Wait()
	sort.Slice(out, func(i, j int) bool { return out[i].O.Name < out[j].O.Name })
	return out
}

// selectFuncs returns the contracts (non-trusted, non-interface) to verify, filtered.
func selectFuncs(g *Global, prop, fnFilter string) ([]*Contract, []string) {
	var cs []*Contract
	var missing []string
	for _, k := range g.contracts.SortedKeys() {
		c := g.contracts.Funcs[k]
		if c.Trusted || c.Interface {
			continue
		}
		if prop != "" {
			has := false
			for _, p := range c.Props {
				if p == prop {
					has = true
				}
			}
			if !has {
				continue
			}
		}
		if fnFilter != "" && !strings.Contains(k, fnFilter) && !(strings.HasPrefix(fnFilter, "file:") && strings.Contains(c.File, fnFilter[5:])) {
			continue
		}
		if _, ok := g.funcs[k]; !ok {
			missing = append(missing, k)
			continue
		}
		cs = append(cs, c)
	}
	return cs, missing
}

func generateAll(g *Global, cs []*Contract) []*FuncResult {
	res := make([]*FuncResult, len(cs))
	// generation is sequential: go/types objects are shared and the generator is fast
	for i, c := range cs {
		var fn *ssa.Function = g.funcs[c.Key]
		res[i] = GenerateFunc(g, fn, c)
		for _, o := range res[i].Obls {
			o.Props = c.Props
		}
	}
	return res
}

func cmdVerify(args []string) int {
	fs := flag.NewFlagSet("verify", flag.ExitOnError)
	prop := fs.String("prop", "", "property id")
	fnf := fs.String("fn", "", "function key substring")
	to := fs.Int("timeout", 10, "solver timeout (s)")
	dump := fs.String("dump", "", "directory to dump failing scripts")
	dumpAll := fs.Bool("dumpall", false, "dump every script")
	repo := fs.String("repo", "/repo", "repository")
	verbose := fs.Bool("v", false, "list every obligation")
	replay := fs.Bool("replay", false, "replay refuted obligations on the real code")
	fs.Parse(args)
	t0 := time.Now()
	g, err := LoadGlobal(*repo, nil)
	if err != nil {
		fmt.Fprintln(os.Stderr, "load:", err)
		return 2
	}
	fmt.Fprintf(os.Stderr, "loaded in %.1fs: %d contracts\n", time.Since(t0).Seconds(), len(g.contracts.Funcs))
	cs, missing := selectFuncs(g, *prop, *fnf)
	for _, m := range missing {
		fmt.Printf("MISSING contract target %s\n", m)
	}
	frs := generateAll(g, cs)
	for _, lr := range lemmaResults(g, *prop) {
		if *fnf == "" || strings.Contains(lr.Key, *fnf) {
			frs = append(frs, lr)
		}
	}
	bad := len(missing)
	for _, fr := range frs {
		if fr.Err != nil {
			fmt.Printf("ERROR %v\n", fr.Err)
			bad++
		}
		for _, u := range fr.Unsupported {
			fmt.Printf("UNSUPPORTED %s: %s\n", fr.Key, u)
			bad++
		}
	}
	results := discharge(frs, time.Duration(*to)*time.Second, true)
	nOK := 0
	for _, r := range results {
		if r.OK {
			nOK++
			if *verbose {
				fmt.Printf("ok    %-80s %s %.2fs\n", r.O.Name, r.R.Solver, r.R.Time)
			}
		} else {
			bad++
			fmt.Printf("FAIL  %-80s %s [%s] %s  -- %s\n", r.O.Name, r.R.Status, r.R.Solver, r.O.Pos, r.O.Descr)
			if r.R.Status == "error" || strings.Contains(r.R.Output, "error") {
				fmt.Printf("      %s\n", firstLines(r.R.Output, 4))
			}
			if *replay && r.R.Status == "sat" && !r.O.Cover {
				if rep := tryReplay(g, r, ""); rep != nil {
					fmt.Printf("      replay confirmed=%v\n%s\n", rep.Confirmed, rep.Log)
				}
			}
		}
		if *dump != "" && (!r.OK || *dumpAll) && r.Script != "" {
			os.MkdirAll(*dump, 0o755)
			os.WriteFile(filepath.Join(*dump, sanitize(r.O.Name)+".smt2"), []byte(r.Script+"(check-sat)\n(get-model)\n"), 0o644)
		}
	}
	fmt.Printf("%d functions, %d obligations, %d ok, %d problems, %.1fs\n", len(frs), len(results), nOK, bad, time.Since(t0).Seconds())
	if bad > 0 {
		return 1
	}
	return 0
}

func main() {
	if len(os.Args) < 2 {
		fmt.Fprintln(os.Stderr, "usage: govc verify|check|ssa ...")
		os.Exit(2)
	}
	switch os.Args[1] {
	case "verify":
		os.Exit(cmdVerify(os.Args[2:]))
	case "check":
		os.Exit(cmdCheck(os.Args[2:]))
	case "sweep":
		// development aid: generate VCs for every module function matching the substring with an
		// empty contract and report generator problems (nothing is claimed from a sweep)
		g, err := LoadGlobal("/repo", nil)
		if err != nil {
			fmt.Fprintln(os.Stderr, err)
			os.Exit(2)
		}
		pat := ""
		if len(os.Args) > 2 {
			pat = os.Args[2]
		}
		var ks []string
		for k, fn := range g.funcs {
			if g.isModuleFn(fn) && strings.Contains(k, pat) && len(fn.Blocks) > 0 {
				ks = append(ks, k)
			}
		}
		sort.Strings(ks)
		nOK, nUns, nPanic := 0, 0, 0
		reasons := map[string]int{}
		for _, k := range ks {
			func() {
				defer func() {
					if r := recover(); r != nil {
						nPanic++
						fmt.Printf("PANIC %s: %v\n", k, r)
					}
				}()
				c := g.contracts.Funcs[k]
				if c == nil {
					c = &Contract{Key: k, Loops: map[int]*LoopSpec{}}
				}
				fr := GenerateFunc(g, g.funcs[k], c)
				if fr.Err != nil {
					fmt.Printf("ERR %s: %v\n", k, fr.Err)
					nUns++
					return
				}
				if len(fr.Unsupported) > 0 {
					nUns++
					for _, u := range fr.Unsupported {
						if i := strings.Index(u, ": "); i >= 0 {
							u = u[i+2:]
						}
						if len(u) > 50 {
							u = u[:50]
						}
						reasons[u]++
					}
					return
				}
				nOK++
			}()
		}
		fmt.Printf("%d functions: %d generated, %d unsupported, %d generator panics\n", len(ks), nOK, nUns, nPanic)
		var rs []string
		for r := range reasons {
			rs = append(rs, fmt.Sprintf("%5d %s", reasons[r], r))
		}
		sort.Sort(sort.Reverse(sort.StringSlice(rs)))
		for _, r := range rs {
			fmt.Println(r)
		}
	case "ssa":
		g, err := LoadGlobal("/repo", nil)
		if err != nil {
			fmt.Fprintln(os.Stderr, err)
			os.Exit(2)
		}
		for _, k := range os.Args[2:] {
			fn, ok := g.funcs[k]
			if !ok {
				fmt.Println("no function", k)
				continue
			}
			fn.WriteTo(os.Stdout)
		}
	case "keys":
		g, err := LoadGlobal("/repo", nil)
		if err != nil {
			fmt.Fprintln(os.Stderr, err)
			os.Exit(2)
		}
		var ks []string
		for k, fn := range g.funcs {
			if g.isModuleFn(fn) {
				ks = append(ks, k)
			}
		}
		sort.Strings(ks)
		for _, k := range ks {
			fmt.Println(k)
		}
	default:
		_ = json.Marshal
		fmt.Fprintln(os.Stderr, "unknown command")
		os.Exit(2)
	}
}
