package main

import (
	"fmt"
	"os"

	"golang.org/x/tools/go/packages"
	"golang.org/x/tools/go/ssa"
	"golang.org/x/tools/go/ssa/ssautil"
)

func main() {
	cfg := &packages.Config{Mode: packages.LoadAllSyntax, Dir: "/repo", BuildFlags: []string{"-tags=verif"}}
	pkgs, err := packages.Load(cfg, ".", "./internal/quicvarint", "./internal/helper", "./dicttls")
	if err != nil {
		fmt.Println(err)
		os.Exit(2)
	}
	prog, spkgs := ssautil.AllPackages(pkgs, ssa.GlobalDebug)
	prog.Build()
	for _, p := range spkgs {
		fmt.Println(p.Pkg.Path(), len(p.Members))
	}
}
