package main

// Symbolic values, typed component heaps and locations (DESIGN.md §2.2).

import (
	"fmt"
	"go/types"
	"math/big"
	"strings"
)

type Kind int

const (
	KInt Kind = iota
	KBool
	KStr
	KFloat
	KPtr
	KSlice
	KIface
	KStruct
	KArray // S is an SMT array (elements scalar) -- arrays of composite elements unsupported
	KMap
	KFunc
	KChan
	KTuple
	KUnit // no value (e.g. call with no results)
)

type Val struct {
	T   types.Type
	K   Kind
	S   Term    // scalar term; for KPtr the object id (may be "" if Loc-only)
	Sl  [4]Term // arr off len cap
	If  [2]Term // tag val
	Fs  []Val   // struct fields / tuple members
	Loc *Loc    // for KPtr: precise location when known at generation time
	C   *big.Int // constant value of an integer, when known
	NZ  *big.Int // for non-negative integers: mask of the bits that may be non-zero (nil = unknown)
}

type LocKind int

const (
	LField  LocKind = iota // field F of struct object Base (pointee non-struct)
	LElem                  // element Idx (absolute) of backing array Base (pointee non-struct)
	LDeref                 // pointee of a first-class pointer Base to a non-struct type
	LGlobal                // package-level variable
	LGhost                 // ghost component Glob at key Base (Int-valued)
)

type Loc struct {
	Kind   LocKind
	Base   Term
	Idx    Term
	ST     types.Type // struct type (named if available) for LField
	Field  int
	T      types.Type // pointee type
	Parent *Loc
	Glob   string
	GVar   *types.Var // for LGlobal: the variable (sentinel errors are immutable constants)
}

func kindOf(t types.Type) Kind {
	switch u := t.Underlying().(type) {
	case *types.Basic:
		info := u.Info()
		switch {
		case info&types.IsBoolean != 0:
			return KBool
		case info&types.IsString != 0:
			return KStr
		case info&types.IsFloat != 0:
			return KFloat
		case info&types.IsInteger != 0:
			return KInt
		case u.Kind() == types.UnsafePointer:
			return KPtr
		case u.Kind() == types.UntypedNil:
			return KPtr
		}
		return KInt
	case *types.Pointer:
		return KPtr
	case *types.Slice:
		return KSlice
	case *types.Interface:
		return KIface
	case *types.Struct:
		return KStruct
	case *types.Array:
		return KArray
	case *types.Map:
		return KMap
	case *types.Signature:
		return KFunc
	case *types.Chan:
		return KChan
	case *types.Tuple:
		return KTuple
	}
	return KInt
}

func sortOfKind(k Kind) string {
	switch k {
	case KBool:
		return "Bool"
	case KStr:
		return "Str"
	case KFloat:
		return "(_ FloatingPoint 11 53)"
	}
	return "Int"
}

type Leaf struct {
	Path string
	Sort string
	T    types.Type // Go type of this leaf when scalar (for range assumptions); nil for composite parts
	Part string     // "", "arr","off","len","cap","tag","val"
}

// leavesOf flattens a non-struct type into SMT-sorted leaves.
func leavesOf(t types.Type) []Leaf {
	switch kindOf(t) {
	case KSlice:
		return []Leaf{{".arr", "Int", t, "arr"}, {".off", "Int", t, "off"}, {".len", "Int", t, "len"}, {".cap", "Int", t, "cap"}}
	case KIface:
		return []Leaf{{".tag", "Int", t, "tag"}, {".val", "Int", t, "val"}}
	case KArray:
		panic("leavesOf: array type " + t.String())
	case KStruct:
		panic("leavesOf: struct type " + t.String())
	}
	return []Leaf{{"", sortOfKind(kindOf(t)), t, ""}}
}

func typeKey(t types.Type) string {
	switch x := t.(type) {
	case *types.Named:
		if _, ok := x.Underlying().(*types.Struct); ok {
			return namedKey(x)
		}
		if _, ok := x.Underlying().(*types.Interface); ok {
			return namedKey(x)
		}
		return typeKey(x.Underlying())
	case *types.Alias:
		return typeKey(types.Unalias(x))
	case *types.Basic:
		switch x.Kind() {
		case types.Uint8:
			return "uint8"
		case types.Int32:
			return "int32"
		case types.UntypedInt:
			return "int"
		}
		return x.Name()
	case *types.Pointer:
		return "P" + typeKey(x.Elem())
	case *types.Slice:
		return "L" + typeKey(x.Elem())
	case *types.Array:
		return fmt.Sprintf("A%d_%s", x.Len(), typeKey(x.Elem()))
	case *types.Interface:
		if x.NumMethods() == 0 {
			return "any"
		}
		return "iface" + fmt.Sprint(x.NumMethods())
	case *types.Struct:
		var fs []string
		for i := 0; i < x.NumFields(); i++ {
			fs = append(fs, x.Field(i).Name()+"_"+typeKey(x.Field(i).Type()))
		}
		return "struct_" + strings.Join(fs, "_")
	case *types.Map:
		return "M" + typeKey(x.Key()) + "_" + typeKey(x.Elem())
	case *types.Signature:
		return "func"
	case *types.Chan:
		return "chan_" + typeKey(x.Elem())
	}
	return sanitize(t.String())
}

func namedKey(x *types.Named) string {
	o := x.Obj()
	s := o.Name()
	if o.Pkg() != nil {
		s = o.Pkg().Name() + "." + s
	}
	if ta := x.TypeArgs(); ta != nil && ta.Len() > 0 {
		for i := 0; i < ta.Len(); i++ {
			s += "_" + typeKey(ta.At(i))
		}
	}
	return s
}

// intRange returns the inclusive range of an integer type.
func intRange(t types.Type) (lo, hi *big.Int, signed bool, bits uint) {
	b, ok := t.Underlying().(*types.Basic)
	if !ok {
		return nil, nil, false, 0
	}
	switch b.Kind() {
	case types.Int8:
		bits, signed = 8, true
	case types.Int16:
		bits, signed = 16, true
	case types.Int32:
		bits, signed = 32, true
	case types.Int64, types.Int:
		bits, signed = 64, true
	case types.Uint8:
		bits = 8
	case types.Uint16:
		bits = 16
	case types.Uint32:
		bits = 32
	case types.Uint64, types.Uint, types.Uintptr:
		bits = 64
	case types.UntypedRune:
		bits, signed = 32, true
	default:
		return nil, nil, false, 0
	}
	if signed {
		hi = new(big.Int).Sub(pow2(bits-1), big.NewInt(1))
		lo = new(big.Int).Neg(pow2(bits - 1))
	} else {
		lo = big.NewInt(0)
		hi = new(big.Int).Sub(pow2(bits), big.NewInt(1))
	}
	return
}

const maxLenBits = 48 // assumed bound on slice/string lengths (machine limit; listed assumption)

func structOf(t types.Type) *types.Struct {
	if p, ok := t.Underlying().(*types.Pointer); ok {
		t = p.Elem()
	}
	s, _ := t.Underlying().(*types.Struct)
	return s
}

func derefType(t types.Type) types.Type {
	if p, ok := t.Underlying().(*types.Pointer); ok {
		return p.Elem()
	}
	return nil
}

func scalar(t types.Type, s Term) Val { return Val{T: t, K: kindOf(t), S: s} }

func boolVal(s Term) Val { return Val{T: types.Typ[types.Bool], K: KBool, S: s} }
func intVal(s Term) Val  { return Val{T: types.Typ[types.Int], K: KInt, S: s} }

// specInt is the type of unbounded specification integers.
var specInt = types.Typ[types.UntypedInt]

func mathInt(s Term) Val { return Val{T: specInt, K: KInt, S: s} }
