package main

// SMT-LIB term construction helpers and the solver portfolio.

import (
	"bytes"
	"context"
	"fmt"
	"math/big"
	"os"
	"os/exec"
	"strings"
	"sync"
	"time"
)

type Term = string

func sanitize(s string) string {
	var b strings.Builder
	for i := 0; i < len(s); i++ {
		c := s[i]
		switch {
		case isAlnum(c) || c == '_':
			b.WriteByte(c)
		case c == '.':
			b.WriteByte('.')
		case c == '*':
			b.WriteString("P")
		case c == '[':
			b.WriteString("L")
		case c == ']':
			b.WriteString("R")
		case c == '/':
			b.WriteString("_")
		case c == '$':
			b.WriteString("S")
		default:
			b.WriteString("_")
		}
	}
	return b.String()
}

func isNumeral(t Term) bool {
	if t == "" {
		return false
	}
	for i := 0; i < len(t); i++ {
		if t[i] < '0' || t[i] > '9' {
			return false
		}
	}
	return true
}

func app(op string, args ...Term) Term {
	if len(args) == 0 {
		return op
	}
	if len(args) == 2 && (op == "+" || op == "-") {
		a, b := args[0], args[1]
		if b == "0" {
			return a
		}
		if a == "0" && op == "+" {
			return b
		}
		if isNumeral(a) && isNumeral(b) && len(a) < 18 && len(b) < 18 {
			var x, y int64
			fmt.Sscan(a, &x)
			fmt.Sscan(b, &y)
			if op == "+" {
				return num(x + y)
			}
			return num(x - y)
		}
	}
	return "(" + op + " " + strings.Join(args, " ") + ")"
}

func num(n int64) Term {
	if n < 0 {
		return fmt.Sprintf("(- %d)", -n)
	}
	return fmt.Sprintf("%d", n)
}

func bigNum(n *big.Int) Term {
	if n.Sign() < 0 {
		return "(- " + new(big.Int).Neg(n).String() + ")"
	}
	return n.String()
}

func pow2(n uint) *big.Int { return new(big.Int).Lsh(big.NewInt(1), n) }

func and(ts ...Term) Term {
	var out []Term
	for _, t := range ts {
		if t == "true" || t == "" {
			continue
		}
		if t == "false" {
			return "false"
		}
		out = append(out, t)
	}
	switch len(out) {
	case 0:
		return "true"
	case 1:
		return out[0]
	}
	return app("and", out...)
}

func or(ts ...Term) Term {
	var out []Term
	for _, t := range ts {
		if t == "false" || t == "" {
			continue
		}
		if t == "true" {
			return "true"
		}
		out = append(out, t)
	}
	switch len(out) {
	case 0:
		return "false"
	case 1:
		return out[0]
	}
	return app("or", out...)
}

func not(t Term) Term {
	if t == "true" {
		return "false"
	}
	if t == "false" {
		return "true"
	}
	if strings.HasPrefix(t, "(not ") && balancedSingle(t[5:len(t)-1]) {
		return t[5 : len(t)-1]
	}
	return app("not", t)
}

func balancedSingle(s string) bool {
	// s is a single term (atom or one balanced s-expr)
	if s == "" {
		return false
	}
	if s[0] != '(' {
		return !strings.ContainsAny(s, " ()")
	}
	d := 0
	for i := 0; i < len(s); i++ {
		if s[i] == '(' {
			d++
		} else if s[i] == ')' {
			d--
			if d == 0 && i != len(s)-1 {
				return false
			}
		}
	}
	return d == 0
}

func implies(a, b Term) Term {
	if a == "true" {
		return b
	}
	if b == "true" || a == "false" {
		return "true"
	}
	return app("=>", a, b)
}

func eq(a, b Term) Term {
	if a == b {
		return "true"
	}
	return app("=", a, b)
}

func ite(c, a, b Term) Term {
	if c == "true" {
		return a
	}
	if c == "false" {
		return b
	}
	if a == b {
		return a
	}
	return app("ite", c, a, b)
}

func sel(a, i Term) Term      { return app("select", a, i) }
func store(a, i, v Term) Term { return app("store", a, i, v) }

// ---------- solver portfolio ----------

type SolverResult struct {
	Status string // unsat | sat | unknown | timeout | error
	Solver string
	Time   float64
	Output string
}

type solverSpec struct {
	name string
	args func(timeout time.Duration) []string
}

var solvers = []solverSpec{
	{"z3-new", func(t time.Duration) []string {
		return []string{"z3-new", "-in", fmt.Sprintf("-T:%d", int(t.Seconds())+1)}
	}},
	{"z3", func(t time.Duration) []string { return []string{"z3", "-in", fmt.Sprintf("-T:%d", int(t.Seconds())+1)} }},
	{"cvc5", func(t time.Duration) []string {
		return []string{"cvc5", "--lang=smt2", fmt.Sprintf("--tlimit=%d", t.Milliseconds()), "--produce-models"}
	}},
}

func runOne(ctx context.Context, sp solverSpec, script string, timeout time.Duration) SolverResult {
	start := time.Now()
	cctx, cancel := context.WithTimeout(ctx, timeout+2*time.Second)
	defer cancel()
	a := sp.args(timeout)
	cmd := exec.CommandContext(cctx, a[0], a[1:]...)
	in := script
	if sp.name == "cvc5" {
		in = cvc5ify(script)
	}
	cmd.Stdin = strings.NewReader(in)
	var out bytes.Buffer
	cmd.Stdout = &out
	cmd.Stderr = &out
	_ = cmd.Run()
	el := time.Since(start).Seconds()
	o := out.String()
	first := strings.TrimSpace(strings.SplitN(o, "\n", 2)[0])
	st := "unknown"
	switch {
	case first == "unsat":
		st = "unsat"
	case first == "sat":
		st = "sat"
	case first == "unknown":
		st = "unknown"
	case strings.Contains(first, "timeout") || cctx.Err() != nil:
		st = "timeout"
	case strings.Contains(o, "error") || strings.Contains(o, "Error"):
		st = "error"
	}
	return SolverResult{Status: st, Solver: sp.name, Time: el, Output: o}
}

// cvc5 needs a logic and does not like some z3-isms.
func cvc5ify(script string) string {
	return "(set-logic ALL)\n" + script
}

var solverSem = make(chan struct{}, solverParallelism())

func solverParallelism() int {
	n := 6
	if s := os.Getenv("GOVC_PAR"); s != "" {
		fmt.Sscan(s, &n)
	}
	if n < 1 {
		n = 1
	}
	return n
}

// SolveOne runs only the first solver once (used for vacuity probes).
func SolveOne(script string, timeout time.Duration) SolverResult {
	solverSem <- struct{}{}
	defer func() { <-solverSem }()
	return runOne(context.Background(), solvers[0], script+"\n(check-sat)\n", timeout)
}

// Solve runs the portfolio: first z3-new with a short budget, then all three raced.
func Solve(script string, timeout time.Duration, wantModel bool) SolverResult {
	solverSem <- struct{}{}
	defer func() { <-solverSem }()
	full := script + "\n(check-sat)\n"
	if wantModel {
		full += "(get-model)\n"
	}
	quick := 3 * time.Second
	if timeout < quick {
		quick = timeout
	}
	r := runOne(context.Background(), solvers[0], full, quick)
	if r.Status == "unsat" || r.Status == "sat" {
		return r
	}
	firstErr := r
	ctx, cancel := context.WithCancel(context.Background())
	defer cancel()
	ch := make(chan SolverResult, len(solvers))
	var wg sync.WaitGroup
	for _, sp := range solvers {
		wg.Add(1)
		go func(sp solverSpec) {
			defer wg.Done()
			ch <- runOne(ctx, sp, full, timeout)
		}(sp)
	}
	go func() { wg.Wait(); close(ch) }()
	best := firstErr
	for r := range ch {
		if r.Status == "unsat" || r.Status == "sat" {
			cancel()
			return r
		}
		if r.Status == "error" && best.Status != "error" {
			// keep the error text for diagnostics but prefer unknown/timeout as final status
			best.Output += "\n[" + r.Solver + "] " + firstLines(r.Output, 3)
		}
		if r.Status == "timeout" && best.Status == "unknown" {
			best.Status = "timeout"
		}
	}
	return best
}

func firstLines(s string, n int) string {
	ls := strings.Split(s, "\n")
	if len(ls) > n {
		ls = ls[:n]
	}
	return strings.Join(ls, "\n")
}
