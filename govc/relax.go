package main

// Quantifier relaxation for witness search: every quantified subterm of a script is replaced by a
// fresh unconstrained Boolean. The result is quantifier-free, so the solvers answer `sat` with a
// model where the original query only timed out. Such a model is merely a CANDIDATE input: it is
// used exclusively to drive the replay of an obligation that has already failed, and only a replay
// that reproduces the failure on the real code counts.

import (
	"fmt"
	"strings"
)

func relaxQuantifiers(script string) string {
	var out strings.Builder
	var decls []string
	n := 0
	i := 0
	for i < len(script) {
		if strings.HasPrefix(script[i:], "(forall ") || strings.HasPrefix(script[i:], "(exists ") {
			// find the matching parenthesis
			depth := 0
			j := i
			for j < len(script) {
				if script[j] == '(' {
					depth++
				} else if script[j] == ')' {
					depth--
					if depth == 0 {
						break
					}
				}
				j++
			}
			name := fmt.Sprintf("qrelax!%d", n)
			n++
			decls = append(decls, "(declare-const "+name+" Bool)")
			out.WriteString(name)
			i = j + 1
			continue
		}
		out.WriteByte(script[i])
		i++
	}
	res := out.String()
	// patterns wrappers `(! qrelax :pattern ...)` cannot remain: they only occur inside quantifiers, which are gone
	return strings.Join(decls, "\n") + "\n" + res
}
