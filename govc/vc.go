package main

// VC context: declarations, state (heap versions, allocation watermark, path condition),
// loads/stores over typed component heaps.

import (
	"fmt"
	"go/token"
	"go/types"
	"strconv"
	"strings"

	"golang.org/x/tools/go/ssa"
)

type Obligation struct {
	Name   string
	Kind   string
	Guard  Term
	Cond   Term
	Pos    string
	Cover  bool // vacuity probe: must be sat
	NDecl  int  // number of decl lines visible
	NAxiom int
	Descr  string
	Fn     string
	Props  []string
	Clause Expr // the contract clause this obligation comes from (for replay)
}

type epoch struct {
	id    int
	conds []Term
	subs  []*epoch
}

type State struct {
	heap  map[string]Term
	ep    *epoch
	alloc Term
	pc    Term
	cf    Term // control-flow part of pc only (branch decisions, no assumed facts): used as the condition of merges
	defers []deferEntry
	dirty  map[string]bool // components written by an effect-summarised call before this generator ever read them
}

func (s *State) clone() *State {
	n := &State{heap: make(map[string]Term, len(s.heap)), ep: s.ep, alloc: s.alloc, pc: s.pc, cf: s.cf, defers: s.defers}
	for k, v := range s.heap {
		n.heap[k] = v
	}
	if len(s.dirty) > 0 {
		n.dirty = make(map[string]bool, len(s.dirty))
		for k := range s.dirty {
			n.dirty[k] = true
		}
	}
	return n
}

type VC struct {
	G        *Global
	fn       *ssa.Function
	key      string
	contract *Contract
	decls    []string
	axioms   []string
	obls     []*Obligation
	declared map[string]bool
	compSort map[string]string
	counter  int
	vals     map[ssa.Value]Val
	entry    *State
	params   map[string]Val
	results  []string
	dry      bool
	touched  map[string]bool
	loopEntry  map[int]*State // state in which loop N was entered (atloop)
	deferCF    map[string]Term // control-flow condition under which a deferred call of NAME was registered
	privAllocs map[*ssa.Alloc]bool // cells of the function whose address never leaves it (private.go)
	topHit   bool
	ordinals map[string]int
	assumptions map[string]bool
	unsupported []string
	trustedUsed map[string]bool
	opaqueCalls map[string]bool
	strLits  map[string]Term
	curPos   token.Pos
	deferred []deferredCall
	mathArith bool
	cfg       *cfgInfo
	compMeta  map[string]compMetaT
	closures  map[Term]closureInfo
	anchorsHit map[int]bool
	callOrd    map[ssa.Instruction]int
	callByName map[string]ssa.Instruction
	callOrdQ   map[ssa.Instruction]string
	callPC     map[ssa.Instruction]Term
	curCall    *ssa.CallCommon
	curClause  Expr
	curBlock   *ssa.BasicBlock
	infeasible map[edge]bool
	implIfaces map[string]*types.Interface
	mapKeys    map[Term]*mapKeyInfo
	strLitRev  map[Term]*string
}

type deferredCall struct {
	call *ssa.Defer
}

func (vc *VC) fresh(prefix string) string {
	vc.counter++
	return fmt.Sprintf("%s!%d", sanitize(prefix), vc.counter)
}

func (vc *VC) declare(name, sort string) {
	if vc.declared[name] {
		return
	}
	if strings.Contains(sort, "Str") {
		vc.ensureStr()
	}
	vc.declared[name] = true
	vc.declared["const:"+name] = true
	vc.decls = append(vc.decls, fmt.Sprintf("(declare-const %s %s)", name, sort))
}

func (vc *VC) declareFun(name string, args []string, ret string) {
	if vc.declared[name] {
		return
	}
	vc.declared[name] = true
	vc.decls = append(vc.decls, fmt.Sprintf("(declare-fun %s (%s) %s)", name, strings.Join(args, " "), ret))
}

// define names a term (define-fun) and returns the name; atoms are returned unchanged.
func (vc *VC) define(prefix, sort string, t Term) Term {
	if !strings.ContainsAny(t, " (") {
		return t
	}
	n := vc.fresh(prefix)
	vc.declared[n] = true
	vc.decls = append(vc.decls, fmt.Sprintf("(define-fun %s () %s %s)", n, sort, t))
	return n
}

// defineByAxiom names a term with a declared constant and a defining equation (instead of a
// define-fun, which solvers inline): quantified facts over the name then have a usable pattern.
func (vc *VC) defineByAxiom(prefix, sort string, t Term) Term {
	if !strings.ContainsAny(t, " (") {
		return t
	}
	n := vc.fresh(prefix)
	vc.declare(n, sort)
	vc.axiom(eq(n, t))
	return n
}

func (st *State) cfOr() Term {
	if st.cf == "" {
		return "true"
	}
	return st.cf
}

func (vc *VC) axiom(t Term) {
	vc.axioms = append(vc.axioms, "(assert "+t+")")
}

func (vc *VC) axiomOnce(key string, t Term) {
	if vc.declared["ax:"+key] {
		return
	}
	vc.declared["ax:"+key] = true
	vc.axiom(t)
}

func (vc *VC) assume(st *State, t Term) {
	if t == "true" {
		return
	}
	st.pc = vc.define("pc", "Bool", and(st.pc, t))
}

func (vc *VC) nextOrdinal(kind string) int {
	n := vc.ordinals[kind]
	vc.ordinals[kind] = n + 1
	return n
}

func (vc *VC) posString() string {
	if vc.curPos.IsValid() {
		p := vc.G.fset.Position(vc.curPos)
		return fmt.Sprintf("%s:%d", shortFile(p.Filename), p.Line)
	}
	return ""
}

func shortFile(f string) string {
	return strings.TrimPrefix(f, "/repo/")
}

// oblige records an obligation; afterwards the condition is assumed.
func (vc *VC) oblige(st *State, kind, tag string, cond Term, descr string) {
	if vc.contract != nil && (vc.contract.NoSafety || vc.contract.NoPre) {
		skip := false
		switch kind {
		case "nil", "bounds", "slice", "assert-type", "nilmap", "makeslice", "shift", "div0", "callee-panic", "unreachable", "panic-allowed":
			skip = vc.contract.NoSafety
		case "pre":
			skip = vc.contract.NoPre
		}
		if skip {
			if kind == "pre" {
				vc.assumptions["preconditions of callees are ASSUMED, not proved, in "+vc.key+" (unchecked pre)"] = true
			} else {
				vc.assumptions["panic-freedom (nil, bounds, type assertions, explicit panics) is ASSUMED, not proved, in "+vc.key+" (unchecked safety)"] = true
			}
			vc.assume(st, cond)
			return
		}
	}
	name := kind
	if tag != "" {
		name += ":" + tag
	} else {
		name += fmt.Sprintf(":%d", vc.nextOrdinal(kind))
	}
	if cond != "true" {
		vc.obls = append(vc.obls, &Obligation{
			Name: vc.key + "#" + name, Kind: kind, Guard: st.pc, Cond: cond, Pos: vc.posString(),
			NDecl: len(vc.decls), NAxiom: len(vc.axioms), Descr: descr, Fn: vc.key, Clause: vc.curClause,
		})
	} else {
		// trivially true obligations are still counted (discharged by construction)
		vc.obls = append(vc.obls, &Obligation{
			Name: vc.key + "#" + name, Kind: kind, Guard: st.pc, Cond: "true", Pos: vc.posString(),
			NDecl: len(vc.decls), NAxiom: len(vc.axioms), Descr: descr, Fn: vc.key,
		})
	}
	// obligations at the end of a path are independent of each other: a failing postcondition
	// (e.g. a listed known finding) must not make the ones after it vacuous
	if vc.G != nil && vc.G.knownOpen[stripOrdinal(vc.key+"#"+name)] {
		return
	}
	vc.assume(st, cond)
}

func (vc *VC) cover(st *State, tag string, extra Term) {
	vc.obls = append(vc.obls, &Obligation{
		Name: vc.key + "#cover:" + tag, Kind: "cover", Guard: st.pc, Cond: extra, Cover: true,
		Pos: vc.posString(), NDecl: len(vc.decls), NAxiom: len(vc.axioms), Fn: vc.key,
	})
}

func (vc *VC) unsupportedf(format string, a ...interface{}) {
	msg := fmt.Sprintf(format, a...)
	if p := vc.posString(); p != "" {
		msg = p + ": " + msg
	}
	vc.unsupported = append(vc.unsupported, msg)
}

// ---------- heap ----------

func (vc *VC) compBaseName(comp string, ep *epoch) Term {
	if len(ep.subs) == 0 {
		n := fmt.Sprintf("H.%s.e%d", sanitize(comp), ep.id)
		vc.declare(n, vc.compSort[comp])
		return n
	}
	// merged epoch
	t := vc.compBaseName(comp, ep.subs[len(ep.subs)-1])
	for i := len(ep.subs) - 2; i >= 0; i-- {
		t = ite(ep.conds[i], vc.compBaseName(comp, ep.subs[i]), t)
	}
	return t
}

func (vc *VC) heapGet(st *State, comp, sort string) Term {
	if _, ok := vc.compSort[comp]; !ok {
		vc.compSort[comp] = sort
	}
	if t, ok := st.heap[comp]; ok {
		// a base name cached during a rolled-back dry run must be declared again
		if strings.HasPrefix(t, "H.") && !strings.ContainsAny(t, " (") && !vc.declared[t] && strings.Contains(t, ".e") && !strings.Contains(t, "!") {
			vc.declare(t, vc.compSort[comp])
		}
		return t
	}
	if st.dirty[comp] {
		// first read after an effect-summarised call wrote this component: an unknown version
		delete(st.dirty, comp)
		n := vc.heapHavoc(st, comp)
		vc.heapTypingAxioms(st, comp)
		return n
	}
	t := vc.compBaseName(comp, st.ep)
	st.heap[comp] = t
	if !strings.ContainsAny(t, " (") && !vc.declared["typed:"+t] {
		vc.declared["typed:"+t] = true
		vc.heapTypingAxioms(st, comp)
	}
	return t
}

func (vc *VC) heapSet(st *State, comp, sort string, t Term) {
	if _, ok := vc.compSort[comp]; !ok {
		vc.compSort[comp] = sort
	}
	st.heap[comp] = vc.define("H."+comp, sort, t)
	if vc.touched != nil {
		vc.touched[comp] = true
	}
}

func (vc *VC) heapHavoc(st *State, comp string) Term {
	if strings.HasPrefix(comp, "map:") {
		vc.clobberMaps("")
	}
	n := vc.fresh("H." + comp)
	vc.declare(n, vc.compSort[comp])
	st.heap[comp] = n
	if vc.touched != nil {
		vc.touched[comp] = true
	}
	return n
}

var epochCounter int

// havocAll models a call whose effects are unknown: every component gets a new base.
func (vc *VC) havocAll(st *State) {
	epochCounter++
	st.ep = &epoch{id: epochCounter}
	st.heap = map[string]Term{}
	st.dirty = nil
	vc.clobberMaps("")
	vc.topHit = true
	na := vc.fresh("alloc")
	vc.declare(na, "Int")
	vc.assume(st, app("<=", st.alloc, na))
	st.alloc = na
}

// ---------- locations ----------

func (vc *VC) locComp(l *Loc) (comp string, outerSortWrap func(string) string) {
	switch l.Kind {
	case LField:
		st := structOf(l.ST)
		return typeKey(l.ST) + "." + st.Field(l.Field).Name(), func(s string) string { return "(Array Int " + s + ")" }
	case LElem:
		return "elems:" + typeKey(l.T), func(s string) string { return "(Array Int (Array Int " + s + "))" }
	case LDeref:
		return "deref:" + typeKey(l.T), func(s string) string { return "(Array Int " + s + ")" }
	case LGlobal:
		return "glob:" + l.Glob, func(s string) string { return s }
	case LGhost:
		return "ghost:" + l.Glob, func(s string) string { return "(Array Int " + s + ")" }
	}
	panic("locComp")
}

func (vc *VC) regComp(l *Loc, lf Leaf) (string, string) {
	comp, wrap := vc.locComp(l)
	name := comp + lf.Path
	if _, ok := vc.compMeta[name]; !ok {
		vc.compMeta[name] = compMetaT{kind: l.Kind, t: lf.T, part: lf.Part}
	}
	return name, wrap(lf.Sort)
}

// readLeaf returns the term stored at leaf `lf` of location l in state st.
func (vc *VC) readLeaf(st *State, l *Loc, lf Leaf) Term {
	name, srt := vc.regComp(l, lf)
	h := vc.heapGet(st, name, srt)
	switch l.Kind {
	case LField, LDeref, LGhost:
		return sel(h, l.Base)
	case LElem:
		return sel(sel(h, l.Base), l.Idx)
	case LGlobal:
		return h
	}
	panic("readLeaf")
}

func (vc *VC) writeLeaf(st *State, l *Loc, lf Leaf, v Term) {
	name, srt := vc.regComp(l, lf)
	h := vc.heapGet(st, name, srt)
	switch l.Kind {
	case LField, LDeref, LGhost:
		vc.heapSet(st, name, srt, store(h, l.Base, v))
	case LElem:
		vc.heapSet(st, name, srt, store(h, l.Base, store(sel(h, l.Base), l.Idx, v)))
	case LGlobal:
		vc.heapSet(st, name, srt, v)
	}
}

// array objects: the elements of an array with object id `id` live in elems:E[id].
func (vc *VC) arrayComp(t types.Type) (string, string, types.Type) {
	et := t.Underlying().(*types.Array).Elem()
	if k := kindOf(et); k == KStruct || k == KSlice || k == KIface || k == KArray {
		vc.unsupportedf("array of composite elements %s", t)
	}
	l := &Loc{Kind: LElem, T: et}
	lf := leavesOf(et)[0]
	name, srt := vc.regComp(l, lf)
	return name, srt, et
}

func (vc *VC) loadArray(st *State, id Term, t types.Type) Val {
	name, srt, _ := vc.arrayComp(t)
	return Val{T: t, K: KArray, S: sel(vc.heapGet(st, name, srt), id), Sl: [4]Term{id}} // Sl[0]: the array's object id (for slicing in specifications)
}

func (vc *VC) storeArray(st *State, id Term, v Val) {
	name, srt, _ := vc.arrayComp(v.T)
	vc.heapSet(st, name, srt, store(vc.heapGet(st, name, srt), id, v.S))
}

// valFromLeaves builds a Val of (non-struct) type t from leaf terms.
func valFromLeaves(t types.Type, get func(Leaf) Term) Val {
	k := kindOf(t)
	v := Val{T: t, K: k}
	ls := leavesOf(t)
	switch k {
	case KSlice:
		for i, l := range ls {
			v.Sl[i] = get(l)
		}
	case KIface:
		v.If[0] = get(ls[0])
		v.If[1] = get(ls[1])
	default:
		v.S = get(ls[0])
	}
	return v
}

func leafTerms(v Val) []Term {
	switch v.K {
	case KSlice:
		return v.Sl[:]
	case KIface:
		return v.If[:]
	case KStruct, KTuple:
		var out []Term
		for _, f := range v.Fs {
			out = append(out, leafTerms(f)...)
		}
		return out
	}
	return []Term{v.S}
}

// subPtr returns the id of the struct-typed field f embedded (by value) in object id of type st.
func (vc *VC) subPtr(stT types.Type, field int, id Term) Term {
	st := structOf(stT)
	name := "sub." + sanitize(typeKey(stT)) + "." + st.Field(field).Name()
	if !vc.declared[name] {
		vc.declareFun(name, []string{"Int"}, "Int")
		vc.declareFun(name+".inv", []string{"Int"}, "Int")
		vc.ensureRt()
		vc.counter++
		k := vc.counter
		vc.axiom(fmt.Sprintf("(forall ((p Int)) (! (and (< (%s p) 0) (= (%s.inv (%s p)) p) (= (knd (%s p)) %d) (= (rt (%s p)) (rt p))) :pattern ((%s p))))",
			name, name, name, name, k, name, name))
	}
	return app(name, id)
}

func (vc *VC) elemPtr(et types.Type, arr, idx Term) Term {
	name := "elp." + sanitize(typeKey(et))
	if !vc.declared[name] {
		vc.declareFun(name, []string{"Int", "Int"}, "Int")
		vc.declareFun(name+".inv1", []string{"Int"}, "Int")
		vc.declareFun(name+".inv2", []string{"Int"}, "Int")
		vc.ensureRt()
		vc.counter++
		k := vc.counter
		vc.axiom(fmt.Sprintf("(forall ((a Int) (i Int)) (! (and (< (%s a i) 0) (= (%s.inv1 (%s a i)) a) (= (%s.inv2 (%s a i)) i) (= (knd (%s a i)) %d) (= (rt (%s a i)) (rt a))) :pattern ((%s a i))))",
			name, name, name, name, name, name, k, name, name))
	}
	return app(name, arr, idx)
}

func (vc *VC) ensureRt() {
	if vc.declared["rt"] {
		return
	}
	vc.declareFun("rt", []string{"Int"}, "Int")
	vc.declareFun("knd", []string{"Int"}, "Int")
	vc.axiom("(forall ((x Int)) (! (=> (>= x 0) (= (rt x) x)) :pattern ((rt x))))")
}

func (vc *VC) rt(id Term) Term {
	vc.ensureRt()
	return app("rt", id)
}

// load reads a value of type t through pointer value p.
func (vc *VC) load(st *State, p Val, t types.Type) Val {
	if kindOf(t) == KStruct {
		if p.S == "" {
			vc.unsupportedf("load of struct through leaf pointer")
			return vc.freshVal(st, t, "u")
		}
		return vc.loadStruct(st, p.S, t)
	}
	if kindOf(t) == KArray {
		if p.S == "" {
			vc.unsupportedf("load of array through leaf pointer")
			return vc.freshVal(st, t, "u")
		}
		return vc.loadArray(st, p.S, t)
	}
	l := p.Loc
	if l == nil {
		l = &Loc{Kind: LDeref, Base: p.S, T: t}
	}
	return vc.loadLoc(st, l, t)
}

func (vc *VC) loadLoc(st *State, l *Loc, t types.Type) Val {
	if l.Kind == LGlobal && l.GVar != nil && isSentinelError(l.GVar) {
		return vc.globalVal(st, l.GVar, true)
	}
	v := valFromLeaves(t, func(lf Leaf) Term { return vc.readLeaf(st, l, lf) })
	vc.assume(st, vc.wellTyped(st, v))
	return v
}

func (vc *VC) loadStruct(st *State, id Term, t types.Type) Val {
	s := structOf(t)
	v := Val{T: t, K: KStruct}
	for i := 0; i < s.NumFields(); i++ {
		ft := s.Field(i).Type()
		if kindOf(ft) == KStruct {
			v.Fs = append(v.Fs, vc.loadStruct(st, vc.subPtr(t, i, id), ft))
		} else if kindOf(ft) == KArray {
			v.Fs = append(v.Fs, vc.loadArray(st, vc.subPtr(t, i, id), ft))
		} else {
			v.Fs = append(v.Fs, vc.loadLoc(st, &Loc{Kind: LField, Base: id, ST: t, Field: i, T: ft}, ft))
		}
	}
	return v
}

func (vc *VC) storeV(st *State, p Val, v Val) {
	t := v.T
	if v.K == KStruct {
		if p.S == "" {
			vc.unsupportedf("store of struct through leaf pointer")
			return
		}
		vc.storeStruct(st, p.S, v)
		return
	}
	if v.K == KArray {
		if p.S == "" {
			vc.unsupportedf("store of array through leaf pointer")
			return
		}
		vc.storeArray(st, p.S, v)
		return
	}
	l := p.Loc
	if l == nil {
		l = &Loc{Kind: LDeref, Base: p.S, T: t}
	}
	vc.storeLoc(st, l, v)
}

func (vc *VC) storeLoc(st *State, l *Loc, v Val) {
	ls := leavesOf(l.T)
	ts := leafTerms(v)
	if len(ls) != len(ts) {
		vc.unsupportedf("store: leaf mismatch for %s (%d vs %d)", l.T, len(ls), len(ts))
		return
	}
	for i, lf := range ls {
		vc.writeLeaf(st, l, lf, ts[i])
	}
}

func (vc *VC) storeStruct(st *State, id Term, v Val) {
	s := structOf(v.T)
	for i := 0; i < s.NumFields(); i++ {
		ft := s.Field(i).Type()
		if kindOf(ft) == KStruct {
			vc.storeStruct(st, vc.subPtr(v.T, i, id), v.Fs[i])
		} else if kindOf(ft) == KArray {
			fv := v.Fs[i]
			fv.T = ft
			vc.storeArray(st, vc.subPtr(v.T, i, id), fv)
		} else {
			fv := v.Fs[i]
			vc.storeLoc(st, &Loc{Kind: LField, Base: id, ST: v.T, Field: i, T: ft}, fv)
		}
	}
}

// fieldAddr computes &p.f
func (vc *VC) fieldAddr(p Val, stT types.Type, field int) Val {
	s := structOf(stT)
	ft := s.Field(field).Type()
	pt := types.NewPointer(ft)
	if kindOf(ft) == KStruct || kindOf(ft) == KArray {
		return Val{T: pt, K: KPtr, S: vc.subPtr(stT, field, p.S)}
	}
	return Val{T: pt, K: KPtr, Loc: &Loc{Kind: LField, Base: p.S, ST: stT, Field: field, T: ft}}
}

// ---------- fresh / zero values ----------

func (vc *VC) freshVal(st *State, t types.Type, prefix string) Val {
	v := vc.freshValNoAssume(t, prefix)
	if st != nil {
		vc.assume(st, vc.wellTyped(st, v))
	}
	return v
}

func (vc *VC) freshValNoAssume(t types.Type, prefix string) Val {
	k := kindOf(t)
	switch k {
	case KStruct:
		s := structOf(t)
		v := Val{T: t, K: KStruct}
		for i := 0; i < s.NumFields(); i++ {
			v.Fs = append(v.Fs, vc.freshValNoAssume(s.Field(i).Type(), prefix+"."+s.Field(i).Name()))
		}
		return v
	case KTuple:
		tp := t.(*types.Tuple)
		v := Val{T: t, K: KTuple}
		for i := 0; i < tp.Len(); i++ {
			v.Fs = append(v.Fs, vc.freshValNoAssume(tp.At(i).Type(), fmt.Sprintf("%s.%d", prefix, i)))
		}
		return v
	}
	if k == KArray {
		et := t.Underlying().(*types.Array).Elem()
		n := vc.fresh(prefix)
		vc.declare(n, "(Array Int "+sortOfKind(kindOf(et))+")")
		return Val{T: t, K: KArray, S: n}
	}
	if k == KUnit {
		return Val{T: t, K: KUnit}
	}
	base := vc.fresh(prefix)
	return valFromLeaves(t, func(lf Leaf) Term {
		n := base + sanitize(lf.Path)
		vc.declare(n, lf.Sort)
		return n
	})
}

func (vc *VC) zeroVal(t types.Type) Val {
	k := kindOf(t)
	switch k {
	case KStruct:
		s := structOf(t)
		v := Val{T: t, K: KStruct}
		for i := 0; i < s.NumFields(); i++ {
			v.Fs = append(v.Fs, vc.zeroVal(s.Field(i).Type()))
		}
		return v
	case KArray:
		et := t.Underlying().(*types.Array).Elem()
		srt := "(Array Int " + sortOfKind(kindOf(et)) + ")"
		return Val{T: t, K: KArray, S: zeroOfSort(srt, vc)}
	}
	return valFromLeaves(t, func(lf Leaf) Term { return zeroOfSort(lf.Sort, vc) })
}

func zeroOfSort(sort string, vc *VC) Term {
	switch {
	case sort == "Int":
		return "0"
	case sort == "Bool":
		return "false"
	case sort == "Str":
		return vc.strLit("")
	case strings.HasPrefix(sort, "(_ FloatingPoint"):
		return "(_ +zero 11 53)"
	case sort == "(Array Int Str)":
		// cvc5 wants a value (not an uninterpreted constant) under `as const`: use a named all-"" array
		if !vc.declared["zarr.Str"] {
			z := vc.strLit("")
			vc.declare("zarr.Str", sort)
			vc.axiom(fmt.Sprintf("(forall ((i Int)) (! (= (select zarr.Str i) %s) :pattern ((select zarr.Str i))))", z))
		}
		return "zarr.Str"
	case strings.HasPrefix(sort, "(Array Int "):
		inner := sort[len("(Array Int ") : len(sort)-1]
		return fmt.Sprintf("((as const %s) %s)", sort, zeroOfSort(inner, vc))
	}
	panic("zeroOfSort " + sort)
}

// wellTyped returns the typing assumption for a value read from the environment
// (integer ranges, slice well-formedness, allocation watermark).
func (vc *VC) wellTyped(st *State, v Val) Term {
	switch v.K {
	case KInt:
		lo, hi, _, _ := intRange(v.T)
		if lo == nil {
			return "true"
		}
		return and(app("<=", bigNum(lo), v.S), app("<=", v.S, bigNum(hi)))
	case KSlice:
		a, o, l, c := v.Sl[0], v.Sl[1], v.Sl[2], v.Sl[3]
		wf := and(app("<=", "0", o), app("<=", "0", l), app("<=", l, c),
			app("<=", app("+", o, c), bigNum(pow2(maxLenBits))),
			app("=>", eq(a, "0"), and(eq(c, "0"), eq(o, "0"))))
		if st != nil {
			wf = and(wf, app("<", vc.rt(a), st.alloc))
		}
		return wf
	case KStr:
		vc.ensureStr()
		return and(app("<=", "0", app("strlen", v.S)), app("<=", app("strlen", v.S), bigNum(pow2(maxLenBits))))
	case KPtr, KMap, KChan:
		if v.S == "" || st == nil {
			return "true"
		}
		if v.K == KPtr {
			return app("<", vc.rt(v.S), st.alloc)
		}
		return and(app("<=", "0", v.S), app("<", v.S, st.alloc))
	case KIface:
		if st == nil {
			return app("<=", "0", v.If[0])
		}
		return and(app("<=", "0", v.If[0]), app("<", vc.rt(v.If[1]), st.alloc), app("=>", eq(v.If[0], "0"), eq(v.If[1], "0")))
	case KStruct, KTuple:
		var cs []Term
		for _, f := range v.Fs {
			cs = append(cs, vc.wellTyped(st, f))
		}
		return and(cs...)
	}
	return "true"
}

// ---------- strings ----------

func (vc *VC) ensureStr() {
	if vc.declared["Str"] {
		return
	}
	vc.declared["Str"] = true
	vc.decls = append(vc.decls, "(declare-sort Str 0)")
	vc.decls = append(vc.decls, "(declare-fun strlen (Str) Int)")
	vc.decls = append(vc.decls, "(declare-fun strat (Str Int) Int)")
	vc.axiom("(forall ((s Str)) (! (>= (strlen s) 0) :pattern ((strlen s))))")
	vc.axiom("(forall ((s Str) (i Int)) (! (and (<= 0 (strat s i)) (<= (strat s i) 255)) :pattern ((strat s i))))")
}

func (vc *VC) strLit(s string) Term {
	vc.ensureStr()
	if t, ok := vc.strLits[s]; ok {
		return t
	}
	n := fmt.Sprintf("str!%d", len(vc.strLits))
	vc.strLits[s] = n
	vc.decls = append(vc.decls, fmt.Sprintf("(declare-const %s Str)", n))
	vc.axiom(eq(app("strlen", n), num(int64(len(s)))))
	if len(s) <= 64 && len(vc.strLits) <= 64 {
		for i := 0; i < len(s); i++ {
			vc.axiom(eq(app("strat", n, num(int64(i))), num(int64(s[i]))))
		}
	}
	// distinct literals are distinct values: an injective numbering
	if !vc.declared["strid"] {
		vc.declareFun("strid", []string{"Str"}, "Int")
	}
	vc.axiom(eq(app("strid", n), num(int64(len(vc.strLits)))))
	if vc.strLitRev == nil {
		vc.strLitRev = map[Term]*string{}
	}
	sc := s
	vc.strLitRev[n] = &sc
	return n
}

// ---------- interface tags ----------

func (vc *VC) typeTag(t types.Type) Term {
	n := vc.G.tagOf(t)
	vc.extendImplAxioms()
	return num(int64(n))
}

// extendImplAxioms keeps the impl.<I> predicates total over every type tag known so far.
func (vc *VC) extendImplAxioms() {
	for name, it := range vc.implIfaces {
		if !vc.declared[name] {
			continue // declared during a rolled-back dry run
		}
		for k := 0; k < len(vc.G.tagTypes); k++ {
			t := vc.G.tagTypes[k]
			tg := num(int64(vc.G.tags[t.String()]))
			flag := "implax:" + name + ":" + tg
			if vc.declared[flag] {
				continue
			}
			vc.declared[flag] = true
			if types.Implements(t, it) {
				vc.axiom(app(name, tg))
			} else {
				vc.axiom(not(app(name, tg)))
			}
		}
	}
}

// patAtom returns a term that may appear inside a quantifier pattern: a declared constant
// constrained to equal t (define-fun names expand to ite/store terms, which z3 rejects in patterns).
func (vc *VC) patAtom(t Term, sort string) Term {
	if vc.declared["const:"+t] {
		return t
	}
	if !strings.ContainsAny(t, " (") {
		if _, err := strconv.ParseInt(t, 10, 64); err == nil {
			return t
		}
	}
	n := vc.fresh("pa")
	vc.declare(n, sort)
	vc.axiom(eq(n, t))
	return n
}
