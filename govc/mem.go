package main

// Slices, arrays, strings, maps, globals.

import (
	"fmt"
	"go/types"

	"golang.org/x/tools/go/ssa"
)

func (g *Global) funcID(fn *ssa.Function) int {
	if g.fnIDs == nil {
		g.fnIDs = map[*ssa.Function]int{}
	}
	if id, ok := g.fnIDs[fn]; ok {
		return id
	}
	id := len(g.fnIDs) + 1
	g.fnIDs[fn] = id
	return id
}

// ---------- globals ----------

func isSentinelError(v *types.Var) bool {
	if v.Pkg() == nil {
		return false
	}
	_, isIface := v.Type().Underlying().(*types.Interface)
	return isIface && v.Type().String() == "error"
}

func (vc *VC) globalName(v *types.Var) string {
	return v.Pkg().Name() + "." + v.Name()
}

// globalVal reads package-level variable v. Error sentinels (package-level variables of type
// error) are treated as immutable, non-nil and pairwise distinct (listed assumption).
func (vc *VC) globalVal(st *State, v *types.Var, pure bool) Val {
	name := vc.globalName(v)
	if isSentinelError(v) {
		vc.assumptions["package-level error variables (io.EOF, ...) are never reassigned, non-nil and pairwise distinct"] = true
		tg := vc.G.tagOf(types.NewPointer(types.NewNamed(types.NewTypeName(0, v.Pkg(), "sentinel$"+v.Name(), nil), types.NewStruct(nil, nil), nil)))
		return Val{T: v.Type(), K: KIface, If: [2]Term{num(int64(tg)), num(int64(-1000000 - tg))}}
	}
	t := v.Type()
	if kindOf(t) == KStruct || kindOf(t) == KArray {
		sfail("global %s of struct/array type is not supported in specifications", name)
	}
	l := &Loc{Kind: LGlobal, Glob: name, T: t}
	if pure {
		e := &Env{vc: vc, st: st}
		return e.pureLoadLoc(l, t)
	}
	return vc.loadLoc(st, l, t)
}

func (vc *VC) globalAddr(g *ssa.Global) Val {
	v, _ := g.Object().(*types.Var)
	t := derefType(g.Type())
	if v == nil {
		// synthetic global (e.g. init$guard)
		return Val{T: g.Type(), K: KPtr, Loc: &Loc{Kind: LGlobal, Glob: g.Pkg.Pkg.Name() + "." + g.Name(), T: t}}
	}
	if kindOf(t) == KStruct || kindOf(t) == KArray {
		// object with a fixed id
		id := fmt.Sprintf("gobj.%s", sanitize(vc.globalName(v)))
		if !vc.declared[id] {
			vc.declare(id, "Int")
			vc.axiom(app("<", id, "(- 2000000)"))
		}
		return Val{T: g.Type(), K: KPtr, S: id}
	}
	return Val{T: g.Type(), K: KPtr, Loc: &Loc{Kind: LGlobal, Glob: vc.globalName(v), T: t, GVar: v}}
}

// ---------- slices and arrays ----------

func (vc *VC) indexAddr(st *State, x *ssa.IndexAddr) {
	base := vc.value(x.X)
	idx := vc.value(x.Index)
	switch bt := x.X.Type().Underlying().(type) {
	case *types.Slice:
		if base.K != KSlice {
			base = vc.zeroVal(x.X.Type())
		}
		vc.oblige(st, "bounds", "", and(app("<=", "0", idx.S), app("<", idx.S, base.Sl[2])), x.String())
		et := bt.Elem()
		abs := vc.ix(base.Sl[1], idx.S)
		vc.vals[x] = vc.nameVal("v."+x.Name(), vc.elemAddr(et, base.Sl[0], abs))
	case *types.Pointer:
		at := bt.Elem().Underlying().(*types.Array)
		vc.nilCheck(st, base, "index of nil array pointer")
		vc.oblige(st, "bounds", "", and(app("<=", "0", idx.S), app("<", idx.S, num(at.Len()))), x.String())
		vc.vals[x] = vc.nameVal("v."+x.Name(), vc.elemAddr(at.Elem(), base.S, idx.S))
	default:
		vc.unsupportedf("IndexAddr on %s", x.X.Type())
		vc.vals[x] = vc.freshVal(st, x.Type(), "u")
	}
}

func (vc *VC) elemAddr(et types.Type, arr, abs Term) Val {
	pt := types.NewPointer(et)
	if k := kindOf(et); k == KStruct {
		return Val{T: pt, K: KPtr, S: vc.elemPtr(et, arr, abs)}
	} else if k == KArray {
		return Val{T: pt, K: KPtr, S: vc.elemPtr(et, arr, abs)}
	}
	return Val{T: pt, K: KPtr, Loc: &Loc{Kind: LElem, Base: arr, Idx: abs, T: et}}
}

func (vc *VC) indexVal(st *State, x *ssa.Index) {
	base := vc.value(x.X)
	idx := vc.value(x.Index)
	switch base.K {
	case KArray:
		at := x.X.Type().Underlying().(*types.Array)
		vc.oblige(st, "bounds", "", and(app("<=", "0", idx.S), app("<", idx.S, num(at.Len()))), x.String())
		vc.setVal(x, Val{K: kindOf(at.Elem()), S: sel(base.S, idx.S)})
	case KStr:
		vc.ensureStr()
		vc.oblige(st, "bounds", "", and(app("<=", "0", idx.S), app("<", idx.S, app("strlen", base.S))), x.String())
		vc.setVal(x, Val{K: KInt, S: app("strat", base.S, idx.S)})
	default:
		vc.unsupportedf("Index on %s", x.X.Type())
		vc.vals[x] = vc.freshVal(st, x.Type(), "u")
	}
}

func (vc *VC) lookup(st *State, x *ssa.Lookup) {
	base := vc.value(x.X)
	idx := vc.value(x.Index)
	switch base.K {
	case KStr:
		vc.ensureStr()
		vc.oblige(st, "bounds", "", and(app("<=", "0", idx.S), app("<", idx.S, app("strlen", base.S))), x.String())
		vc.setVal(x, Val{K: KInt, S: app("strat", base.S, idx.S)})
	case KMap:
		vc.mapLookup(st, x, base, idx)
	default:
		vc.unsupportedf("Lookup on %s", x.X.Type())
		vc.vals[x] = vc.freshVal(st, x.Type(), "u")
	}
}

func (vc *VC) sliceOp(st *State, x *ssa.Slice) {
	base := vc.value(x.X)
	var lo, hi, max Term
	if x.Low != nil {
		lo = vc.value(x.Low).S
	} else {
		lo = "0"
	}
	switch bt := x.X.Type().Underlying().(type) {
	case *types.Slice:
		if base.K != KSlice {
			base = vc.zeroVal(x.X.Type())
		}
		if x.High != nil {
			hi = vc.value(x.High).S
		} else {
			hi = base.Sl[2]
		}
		limit := base.Sl[3]
		if x.Max != nil {
			max = vc.value(x.Max).S
			vc.oblige(st, "slice", "", and(app("<=", "0", lo), app("<=", lo, hi), app("<=", hi, max), app("<=", max, limit)), x.String())
			limit = max
		} else {
			vc.oblige(st, "slice", "", and(app("<=", "0", lo), app("<=", lo, hi), app("<=", hi, limit)), x.String())
		}
		r := Val{K: KSlice}
		r.Sl = [4]Term{base.Sl[0], app("+", base.Sl[1], lo), app("-", hi, lo), app("-", limit, lo)}
		vc.setVal(x, r)
	case *types.Basic: // string
		vc.ensureStr()
		if x.High != nil {
			hi = vc.value(x.High).S
		} else {
			hi = app("strlen", base.S)
		}
		vc.oblige(st, "slice", "", and(app("<=", "0", lo), app("<=", lo, hi), app("<=", hi, app("strlen", base.S))), x.String())
		vc.setVal(x, Val{K: KStr, S: vc.strSub(base.S, lo, hi)})
	case *types.Pointer:
		at := bt.Elem().Underlying().(*types.Array)
		vc.nilCheck(st, base, "slice of nil array pointer")
		n := num(at.Len())
		if x.High != nil {
			hi = vc.value(x.High).S
		} else {
			hi = n
		}
		limit := n
		if x.Max != nil {
			max = vc.value(x.Max).S
			vc.oblige(st, "slice", "", and(app("<=", "0", lo), app("<=", lo, hi), app("<=", hi, max), app("<=", max, limit)), x.String())
			limit = max
		} else {
			vc.oblige(st, "slice", "", and(app("<=", "0", lo), app("<=", lo, hi), app("<=", hi, limit)), x.String())
		}
		r := Val{K: KSlice}
		r.Sl = [4]Term{base.S, lo, app("-", hi, lo), app("-", limit, lo)}
		vc.setVal(x, r)
	default:
		vc.unsupportedf("Slice on %s", x.X.Type())
		vc.vals[x] = vc.freshVal(st, x.Type(), "u")
	}
}

// zeroElems makes backing array `arr` of element type et all-zero in st.
func (vc *VC) zeroElems(st *State, et types.Type, arr Term) {
	if kindOf(et) == KStruct {
		// elements are sub-objects; zero every field of every element (quantified)
		vc.zeroStructElemsDeep(st, et, arr)
		return
	}
	if kindOf(et) == KArray {
		vc.unsupportedf("slice of arrays")
		return
	}
	l := &Loc{Kind: LElem, T: et}
	for _, lf := range leavesOf(et) {
		name, srt := vc.regComp(l, lf)
		h := vc.heapGet(st, name, srt)
		inner := "(Array Int " + lf.Sort + ")"
		vc.heapSet(st, name, srt, store(h, arr, zeroOfSort(inner, vc)))
	}
}

func (vc *VC) zeroStructElems(st *State, et types.Type, arr Term) {
	s := structOf(et)
	for i := 0; i < s.NumFields(); i++ {
		ft := s.Field(i).Type()
		if k := kindOf(ft); k == KStruct || k == KArray {
			vc.unsupportedf("make of slice of structs with nested struct/array field")
			continue
		}
		l := &Loc{Kind: LField, ST: et, Field: i, T: ft}
		for _, lf := range leavesOf(ft) {
			name, srt := vc.regComp(l, lf)
			h := vc.heapGet(st, name, srt)
			nh := vc.heapHavoc(st, name)
			ep := "elp." + sanitize(typeKey(et))
			vc.elemPtr(et, "0", "0") // ensure declared
			z := zeroOfSort(lf.Sort, vc)
			vc.axiom(fmt.Sprintf("(forall ((o Int)) (! (= (select %s o) (ite (and (= (knd o) (knd (%s 0 0))) (= (%s.inv1 o) %s) (= (%s (%s.inv1 o) (%s.inv2 o)) o)) %s (select %s o))) :pattern ((select %s o))))",
				nh, ep, ep, arr, ep, ep, ep, z, h, nh))
		}
	}
}

func (vc *VC) makeSlice(st *State, x *ssa.MakeSlice) {
	ln := vc.value(x.Len)
	cp := vc.value(x.Cap)
	vc.oblige(st, "makeslice", "", and(app("<=", "0", ln.S), app("<=", ln.S, cp.S)), x.String())
	et := x.Type().Underlying().(*types.Slice).Elem()
	arr := vc.allocID(st)
	vc.zeroElems(st, et, arr)
	r := Val{K: KSlice, Sl: [4]Term{arr, "0", ln.S, cp.S}}
	vc.setVal(x, r)
}

// ---------- strings ----------

func (vc *VC) strConcat(a, b Term) Term {
	vc.ensureStr()
	if !vc.declared["strcat"] {
		vc.declareFun("strcat", []string{"Str", "Str"}, "Str")
		vc.axiom("(forall ((a Str) (b Str)) (! (= (strlen (strcat a b)) (+ (strlen a) (strlen b))) :pattern ((strcat a b))))")
		vc.axiom("(forall ((a Str) (b Str) (i Int)) (! (= (strat (strcat a b) i) (ite (< i (strlen a)) (strat a i) (strat b (- i (strlen a))))) :pattern ((strat (strcat a b) i))))")
	}
	return app("strcat", a, b)
}

func (vc *VC) strSub(s, lo, hi Term) Term {
	vc.ensureStr()
	if !vc.declared["strsub"] {
		vc.declareFun("strsub", []string{"Str", "Int", "Int"}, "Str")
		vc.axiom("(forall ((s Str) (l Int) (h Int)) (! (=> (and (<= 0 l) (<= l h)) (= (strlen (strsub s l h)) (- h l))) :pattern ((strsub s l h))))")
		vc.axiom("(forall ((s Str) (l Int) (h Int) (i Int)) (! (= (strat (strsub s l h) i) (strat s (+ l i))) :pattern ((strat (strsub s l h) i))))")
	}
	return app("strsub", s, lo, hi)
}

// bytesToStr models string(b): a function of the contents, offset and length.
func (vc *VC) bytesToStr(st *State, b Val) Term {
	vc.ensureStr()
	if !vc.declared["str.of"] {
		vc.declareFun("str.of", []string{"(Array Int Int)", "Int", "Int"}, "Str")
		vc.axiom("(forall ((a (Array Int Int)) (o Int) (n Int)) (! (=> (>= n 0) (= (strlen (str.of a o n)) n)) :pattern ((str.of a o n))))")
		vc.axiom("(forall ((a (Array Int Int)) (o Int) (n Int) (i Int)) (! (=> (and (<= 0 i) (< i n)) (= (strat (str.of a o n) i) (select a (+ o i)))) :pattern ((strat (str.of a o n) i))))")
	}
	l := &Loc{Kind: LElem, T: types.Typ[types.Uint8]}
	name, srt := vc.regComp(l, leavesOf(types.Typ[types.Uint8])[0])
	h := vc.heapGet(st, name, srt)
	return app("str.of", sel(h, b.Sl[0]), b.Sl[1], b.Sl[2])
}

func (vc *VC) strToBytes(st *State, s Val, t types.Type) Val {
	vc.ensureStr()
	arr := vc.allocID(st)
	l := &Loc{Kind: LElem, T: types.Typ[types.Uint8]}
	name, srt := vc.regComp(l, leavesOf(types.Typ[types.Uint8])[0])
	h := vc.heapGet(st, name, srt)
	s.S = vc.patAtom(s.S, "Str")
	na := vc.fresh("bytesof")
	vc.declare(na, "(Array Int Int)")
	vc.axiom(fmt.Sprintf("(forall ((i Int)) (! (=> (and (<= 0 i) (< i (strlen %s))) (= (select %s i) (strat %s i))) :pattern ((select %s i))))", s.S, na, s.S, na))
	vc.heapSet(st, name, srt, store(h, arr, na))
	n := app("strlen", s.S)
	return Val{T: t, K: KSlice, Sl: [4]Term{arr, "0", n, n}}
}

// ---------- maps ----------
// A map value is an object id; its contents live in two components per map type:
// map:<T>.has : id -> key -> Bool,  map:<T>.val<leaf> : id -> key -> value

func (vc *VC) mapComps(t types.Type) (kt, vt types.Type, ksort string, ok bool) {
	mt := t.Underlying().(*types.Map)
	kt, vt = mt.Key(), mt.Elem()
	switch kindOf(kt) {
	case KInt, KStr, KBool:
		ksort = sortOfKind(kindOf(kt))
	default:
		return kt, vt, "", false
	}
	if k := kindOf(vt); k == KStruct || k == KArray {
		return kt, vt, ksort, false
	}
	return kt, vt, ksort, true
}

func (vc *VC) mapHeap(st *State, t types.Type, leaf string, vsort string) (string, string, Term) {
	_, _, ksort, _ := vc.mapComps(t)
	name := "map:" + typeKey(t) + leaf
	srt := fmt.Sprintf("(Array Int (Array %s %s))", ksort, vsort)
	if _, ok := vc.compMeta[name]; !ok {
		vc.compMeta[name] = compMetaT{kind: LField, part: "map"}
	}
	return name, srt, vc.heapGet(st, name, srt)
}

func (vc *VC) makeMap(st *State, x *ssa.MakeMap) {
	_, vt, _, ok := vc.mapComps(x.Type())
	id := vc.allocID(st)
	if !ok {
		vc.unsupportedf("map type %s", x.Type())
		vc.setVal(x, Val{K: KMap, S: id})
		return
	}
	name, srt, h := vc.mapHeap(st, x.Type(), ".has", "Bool")
	_, _, ksort, _ := vc.mapComps(x.Type())
	vc.heapSet(st, name, srt, store(h, id, fmt.Sprintf("((as const (Array %s Bool)) false)", ksort)))
	_ = vt
	vc.newMapMirror(id, x.Type())
	vc.setVal(x, Val{K: KMap, S: id})
}

func (vc *VC) mapUpdate(st *State, x *ssa.MapUpdate) {
	m := vc.value(x.Map)
	k := vc.value(x.Key)
	v := vc.value(x.Value)
	_, vt, _, ok := vc.mapComps(x.Map.Type())
	if !ok {
		vc.unsupportedf("map type %s", x.Map.Type())
		return
	}
	if vc.mapKeys[m.S] != nil {
		// the map was made in this function: its id is a fresh allocation (>= alloc0 >= 1)
		vc.oblige(st, "nilmap", "", "true", "assignment to entry in nil map")
	} else {
		vc.oblige(st, "nilmap", "", not(eq(m.S, "0")), "assignment to entry in nil map")
	}
	vc.recordMapUpdate(m.S, x.Map.Type(), k, v)
	name, srt, h := vc.mapHeap(st, x.Map.Type(), ".has", "Bool")
	vc.heapSet(st, name, srt, store(h, m.S, store(sel(h, m.S), k.S, "true")))
	v.T = vt
	ts := leafTerms(v)
	for i, lf := range leavesOf(vt) {
		n2, s2, h2 := vc.mapHeap(st, x.Map.Type(), ".val"+lf.Path, lf.Sort)
		vc.heapSet(st, n2, s2, store(h2, m.S, store(sel(h2, m.S), k.S, ts[i])))
	}
}

func (vc *VC) mapLookupPure(st *State, m Val, k Val) Val {
	_, vt, _, ok := vc.mapComps(m.T)
	if !ok {
		sfail("map type %s unsupported", m.T)
	}
	return valFromLeaves(vt, func(lf Leaf) Term {
		_, _, h := vc.mapHeap(st, m.T, ".val"+lf.Path, lf.Sort)
		return sel(sel(h, m.S), k.S)
	})
}

func (vc *VC) mapHas(st *State, m Val, k Val) Term {
	_, _, h := vc.mapHeap(st, m.T, ".has", "Bool")
	return sel(sel(h, m.S), k.S)
}

func (vc *VC) mapLen(st *State, m Val) Term {
	if !vc.declared["maplen"] {
		vc.declareFun("maplen", []string{"Int"}, "Int")
	}
	return app("maplen", m.S)
}

func (vc *VC) mapLookup(st *State, x *ssa.Lookup, m Val, k Val) {
	_, vt, _, ok := vc.mapComps(x.X.Type())
	if !ok {
		vc.unsupportedf("map type %s", x.X.Type())
		vc.vals[x] = vc.freshVal(st, x.Type(), "u")
		return
	}
	m.T = x.X.Type()
	has := and(not(eq(m.S, "0")), vc.mapHas(st, m, k))
	hasN := vc.define("has", "Bool", has)
	v := vc.mapLookupPure(st, m, k)
	vc.assume(st, implies(hasN, vc.wellTyped(st, v)))
	res := iteVal(hasN, v, vc.zeroVal(vt))
	res.T = vt
	res = vc.nameVal("v."+x.Name(), res)
	if x.CommaOk {
		vc.vals[x] = Val{T: x.Type(), K: KTuple, Fs: []Val{res, boolVal(hasN)}}
	} else {
		vc.vals[x] = res
	}
}
