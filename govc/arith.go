package main

// Integer arithmetic in "Int mode": Go's fixed-width integers are modelled as
// mathematical integers with explicit wrap-around where the language wraps.
// Bitwise operations with a constant operand are encoded exactly with div/mod.

import (
	"fmt"
	"go/types"
	"math/big"
)

func (vc *VC) ensureArith() {
	if vc.declared["tdiv"] {
		return
	}
	vc.declared["tdiv"] = true
	// Go's truncated division / remainder
	vc.decls = append(vc.decls,
		"(define-fun tdiv ((a Int) (b Int)) Int (ite (>= a 0) (ite (> b 0) (div a b) (- (div a (- b)))) (ite (> b 0) (- (div (- a) b)) (div (- a) (- b)))))",
		"(define-fun tmod ((a Int) (b Int)) Int (- a (* b (tdiv a b))))")
}

// wrapTo reduces a mathematical integer into the range of Go type t.
func wrapTo(t types.Type, x Term) Term {
	lo, _, signed, bits := intRange(t)
	if lo == nil {
		return x
	}
	m := bigNum(pow2(bits))
	if !signed {
		return app("mod", x, m)
	}
	h := bigNum(pow2(bits - 1))
	return app("-", app("mod", app("+", x, h), m), h)
}

func inRange(t types.Type, x Term) Term {
	lo, hi, _, _ := intRange(t)
	if lo == nil {
		return "true"
	}
	return and(app("<=", bigNum(lo), x), app("<=", x, bigNum(hi)))
}

func bitOf(x Term, b uint) Term {
	if b == 0 {
		return app("mod", x, "2")
	}
	return app("mod", app("div", x, bigNum(pow2(b))), "2")
}

// toUnsigned maps a (possibly negative) value of a signed `bits`-wide type to its two's complement.
func toUnsigned(x Term, signed bool, bits uint) Term {
	if !signed {
		return x
	}
	return app("mod", x, bigNum(pow2(bits)))
}

func fromUnsigned(x Term, signed bool, bits uint) Term {
	if !signed {
		return x
	}
	h := bigNum(pow2(bits - 1))
	m := bigNum(pow2(bits))
	return ite(app(">=", x, h), app("-", x, m), x)
}

// andConst: x & c for constant c >= 0, x non-negative (already unsigned view).
func andConst(x Term, c *big.Int) Term {
	if c.Sign() == 0 {
		return "0"
	}
	// decompose c into runs of ones
	var parts []Term
	n := uint(c.BitLen())
	i := uint(0)
	for i < n {
		if c.Bit(int(i)) == 0 {
			i++
			continue
		}
		j := i
		for j < n && c.Bit(int(j)) == 1 {
			j++
		}
		// bits i..j-1
		var seg Term
		if i == 0 {
			seg = app("mod", x, bigNum(pow2(j)))
		} else {
			seg = app("*", bigNum(pow2(i)), app("mod", app("div", x, bigNum(pow2(i))), bigNum(pow2(j-i))))
		}
		parts = append(parts, seg)
		i = j
	}
	if len(parts) == 1 {
		return parts[0]
	}
	return app("+", parts...)
}

// orConst: x | c = x + (c & ^x) = x + c - (x & c)
func orConst(x Term, c *big.Int) Term {
	if c.Sign() == 0 {
		return x
	}
	return app("-", app("+", x, bigNum(c)), andConst(x, c))
}

// xorConst: x ^ c = x + c - 2*(x & c)
func xorConst(x Term, c *big.Int) Term {
	if c.Sign() == 0 {
		return x
	}
	return app("-", app("+", x, bigNum(c)), app("*", "2", andConst(x, c)))
}

// bitwiseGeneral encodes x op y bit by bit (both non-negative, < 2^bits).
func bitwiseGeneral(op string, x, y Term, bits uint) Term {
	var parts []Term
	for b := uint(0); b < bits; b++ {
		bx := eq(bitOf(x, b), "1")
		by := eq(bitOf(y, b), "1")
		var c Term
		switch op {
		case "&":
			c = and(bx, by)
		case "|":
			c = or(bx, by)
		case "^":
			c = app("xor", bx, by)
		case "&^":
			c = and(bx, not(by))
		}
		parts = append(parts, ite(c, bigNum(pow2(b)), "0"))
	}
	return app("+", parts...)
}

// intBinop computes the Go result of x op y for integer type t (result type = t for arithmetic).
// obl is called for side obligations (division by zero, overflow).
func (vc *VC) intBinop(op string, x, y Val, t types.Type, overflow func(kind string, cond Term)) Val {
	lo, _, signed, bits := intRange(t)
	math := lo == nil || isSpecInt(t)
	res := Val{T: t, K: KInt}
	wrap := func(r Term) Term {
		if math {
			return r
		}
		if signed {
			if overflow != nil {
				overflow("overflow", inRange(t, r))
				return r
			}
			// signed arithmetic treated as mathematical (listed assumption)
			vc.mathArith = true
			return r
		}
		return wrapTo(t, r)
	}
	switch op {
	case "+":
		if x.C != nil && y.C != nil {
			res.C = new(big.Int).Add(x.C, y.C)
		}
		res.S = wrap(app("+", x.S, y.S))
	case "-":
		if x.C != nil && y.C != nil {
			res.C = new(big.Int).Sub(x.C, y.C)
		}
		res.S = wrap(app("-", x.S, y.S))
	case "*":
		if x.C != nil && y.C != nil {
			res.C = new(big.Int).Mul(x.C, y.C)
		}
		res.S = wrap(app("*", x.S, y.S))
	case "/":
		vc.ensureArith()
		if overflow != nil {
			overflow("div0", not(eq(y.S, "0")))
		}
		if math {
			res.S = app("div", x.S, y.S)
		} else if !signed {
			res.S = app("div", x.S, y.S)
		} else {
			res.S = app("tdiv", x.S, y.S)
		}
	case "%":
		vc.ensureArith()
		if overflow != nil {
			overflow("div0", not(eq(y.S, "0")))
		}
		if math || !signed {
			res.S = app("mod", x.S, y.S)
		} else {
			res.S = app("tmod", x.S, y.S)
		}
	case "<<":
		if y.C != nil {
			sh := uint(y.C.Uint64())
			if !math && sh >= bits {
				res.S = "0"
			} else if nz := nzOf(x); nz != nil && !math && !signed && new(big.Int).Lsh(nz, sh).BitLen() <= int(bits) {
				// no bit is shifted out: no wrap-around
				res.S = app("*", x.S, bigNum(pow2(sh)))
				res.NZ = new(big.Int).Lsh(nz, sh)
			} else {
				res.S = wrap(app("*", x.S, bigNum(pow2(sh))))
				if nz != nil && !math {
					res.NZ = new(big.Int).And(new(big.Int).Lsh(nz, sh), new(big.Int).Sub(pow2(bits), big.NewInt(1)))
				}
			}
		} else {
			// variable shift: ite chain over 0..bits-1
			n := bits
			if math {
				n = 64
			}
			t := Term("0")
			for s := int(n) - 1; s >= 0; s-- {
				t = ite(eq(y.S, num(int64(s))), app("*", x.S, bigNum(pow2(uint(s)))), t)
			}
			res.S = wrap(t)
		}
	case ">>":
		if y.C != nil {
			sh := uint(y.C.Uint64())
			res.S = app("div", x.S, bigNum(pow2(sh)))
			if nz := nzOf(x); nz != nil {
				res.NZ = new(big.Int).Rsh(nz, sh)
			}
		} else {
			n := bits
			if math {
				n = 64
			}
			var t Term = ite(app(">=", x.S, "0"), "0", "(- 1)")
			for s := int(n) - 1; s >= 0; s-- {
				t = ite(eq(y.S, num(int64(s))), app("div", x.S, bigNum(pow2(uint(s)))), t)
			}
			res.S = t
		}
	case "&", "|", "^", "&^":
		if math {
			bits, signed = 64, false
		}
		cx, cy := x.C, y.C
		// operands whose possibly-non-zero bits are disjoint: | and ^ are +, & is 0 (exact)
		if nzx, nzy := nzOf(x), nzOf(y); nzx != nil && nzy != nil && new(big.Int).And(nzx, nzy).Sign() == 0 {
			switch op {
			case "|", "^":
				res.S = app("+", x.S, y.S)
				res.NZ = new(big.Int).Or(nzx, nzy)
				if x.C != nil && y.C != nil {
					res.C = new(big.Int).Add(x.C, y.C)
				}
				return res
			case "&":
				res.S, res.C, res.NZ = "0", big.NewInt(0), big.NewInt(0)
				return res
			case "&^":
				res.S, res.NZ = x.S, nzx
				return res
			}
		}
		if op == "&^" && cy != nil {
			// x &^ c = x & ^c
			mask := new(big.Int).Sub(pow2(bits), big.NewInt(1))
			cyu := new(big.Int).And(cy, mask)
			nc := new(big.Int).Xor(cyu, mask)
			res.S = fromUnsigned(andConst(toUnsigned(x.S, signed, bits), nc), signed, bits)
			break
		}
		if cy == nil && cx != nil && op != "&^" {
			x, y, cx, cy = y, x, cy, cx
		}
		if cy != nil {
			mask := new(big.Int).Sub(pow2(bits), big.NewInt(1))
			cyu := new(big.Int).And(cy, mask)
			xu := toUnsigned(x.S, signed, bits)
			var r Term
			switch op {
			case "&":
				r = andConst(xu, cyu)
			case "|":
				r = orConst(xu, cyu)
			case "^":
				r = xorConst(xu, cyu)
			}
			if signed && cy.Sign() >= 0 && op == "&" {
				res.S = r // result non-negative
			} else {
				res.S = fromUnsigned(r, signed, bits)
			}
			if op == "&" && cy.Sign() >= 0 {
				res.NZ = new(big.Int).Set(cyu)
				if nzx := nzOf(x); nzx != nil {
					res.NZ.And(res.NZ, nzx)
				}
			}
		} else {
			if bits > 16 {
				vc.unsupportedf("bitwise %s on two non-constant %d-bit operands", op, bits)
			}
			if op == "^" && (bits == 8 || bits == 16) {
				res.S = fromUnsigned(vc.xorUF(toUnsigned(x.S, signed, bits), toUnsigned(y.S, signed, bits), bits), signed, bits)
			} else {
				res.S = fromUnsigned(bitwiseGeneral(op, toUnsigned(x.S, signed, bits), toUnsigned(y.S, signed, bits), bits), signed, bits)
			}
		}
	default:
		panic(fmt.Sprintf("intBinop %s", op))
	}
	return res
}

// nzOf returns the mask of bits of a NON-NEGATIVE integer value that may be non-zero, or nil.
func nzOf(v Val) *big.Int {
	if v.C != nil {
		if v.C.Sign() >= 0 {
			return v.C
		}
		return nil
	}
	if v.NZ != nil {
		return v.NZ
	}
	if v.T != nil && !isSpecInt(v.T) {
		if lo, hi, signed, _ := intRange(v.T); lo != nil && !signed {
			return hi // all bits of the unsigned type
		}
	}
	return nil
}

func isSpecInt(t types.Type) bool {
	b, ok := t.(*types.Basic)
	return ok && b.Kind() == types.UntypedInt
}

// convertInt converts integer value x to integer type `to`.
func (vc *VC) convertInt(x Val, to types.Type, notrunc func(cond Term)) Val {
	res := Val{T: to, K: KInt}
	if x.C != nil {
		lo, hi, signed, bits := intRange(to)
		if lo != nil {
			c := new(big.Int).Set(x.C)
			if c.Cmp(lo) < 0 || c.Cmp(hi) > 0 {
				c.Mod(c, pow2(bits))
				if signed && c.Cmp(pow2(bits-1)) >= 0 {
					c.Sub(c, pow2(bits))
				}
			}
			res.C = c
			res.S = bigNum(c)
			return res
		}
	}
	flo, fhi, _, _ := intRange(x.T)
	tlo, thi, _, _ := intRange(to)
	if tlo == nil {
		res.S = x.S
		return res
	}
	if flo != nil && !isSpecInt(x.T) && flo.Cmp(tlo) >= 0 && fhi.Cmp(thi) <= 0 {
		res.S = x.S
		res.NZ = nzOf(x)
		return res
	}
	// a value whose possibly-set bits all fit the target is not changed by the conversion
	if nz := nzOf(x); nz != nil && nz.Cmp(thi) <= 0 {
		res.S = x.S
		res.NZ = nz
		return res
	}
	if notrunc != nil {
		notrunc(inRange(to, x.S))
	}
	res.S = wrapTo(to, x.S)
	if nz := nzOf(x); nz != nil && tlo.Sign() == 0 {
		res.NZ = new(big.Int).And(nz, thi)
	}
	return res
}

// xorUF: x ^ y for two symbolic operands of 8 or 16 bits, as a function symbol with two axioms: its
// definition (bit by bit, so nothing is lost) and the involution law (a ^ b) ^ b == a, which holds
// for all operands in range but which no solver derives from the bit-level definition in context.
func (vc *VC) xorUF(x, y Term, bits uint) Term {
	name := fmt.Sprintf("bxor%d", bits)
	vc.declareFun(name, []string{"Int", "Int"}, "Int")
	lim := bigNum(pow2(bits))
	inr := func(v Term) Term { return and(app("<=", "0", v), app("<", v, lim)) }
	vc.axiomOnce(name+".def", fmt.Sprintf("(forall ((a Int) (b Int)) (! (= (%s a b) %s) :pattern ((%s a b))))", name, bitwiseGeneral("^", "a", "b", bits), name))
	vc.axiomOnce(name+".inv", fmt.Sprintf("(forall ((a Int) (b Int)) (! (=> (and %s %s) (= (%s (%s a b) b) a)) :pattern ((%s (%s a b) b))))", inr("a"), inr("b"), name, name, name, name))
	vc.trustedUsed["axiom: (a ^ b) ^ b == a for operands below 2^"+fmt.Sprint(bits)+" (besides the bit-level definition of xor)"] = true
	return app(name, x, y)
}
