package main

// Write-effect summaries (DESIGN.md Appendix B, simplified): for a module function without a
// contract, the set of heap components it may write, transitively through the static call graph.
// A call to such a function havocs exactly those components (all objects of the component) instead
// of the whole heap. Anything the analysis cannot follow (calls through function values, interface
// calls with implementers outside the module, external functions without a trusted contract, unsafe)
// makes the summary TOP = whole heap, as before. The analysis is part of the trusted base.

import (
	"go/types"
	"sort"
	"strings"

	"golang.org/x/tools/go/ssa"
)

type effectSet struct {
	top   bool
	why   string
	comps map[string]bool
}

func (e *effectSet) add(o *effectSet) {
	if o.top && !e.top {
		e.top, e.why = true, o.why
	}
	for c := range o.comps {
		e.comps[c] = true
	}
}

type effectAnalysis struct {
	g     *Global
	memo  map[*ssa.Function]*effectSet
	stack map[*ssa.Function]bool
}

// external functions known not to write memory reachable by the caller (beyond their results)
var pureExternal = map[string]bool{
	"errors.New": true, "fmt.Errorf": true, "fmt.Sprintf": true, "fmt.Sprint": true, "strconv.Itoa": true,
	"strconv.Quote": true, "bytes.Equal": true, "strings.HasPrefix": true, "strings.HasSuffix": true,
	"strings.Contains": true, "strings.ToLower": true, "strings.Join": true, "strings.LastIndex": true,
	"errors.Is": true, "errors.As": false, "time.Now": true, "bytes.NewReader": true, "bytes.NewBuffer": true,
	"subtle.ConstantTimeCompare": true, "hex.EncodeToString": true, "slices.Contains": true, "slices.Index": true,
	"binary.bigEndian.Uint16": true, "binary.bigEndian.Uint32": true, "binary.bigEndian.Uint64": true,
	"sort.SearchInts": true, "net.ParseIP": true, "utf8.ValidString": true,
}

func (g *Global) effects() *effectAnalysis {
	if g.eff == nil {
		g.eff = &effectAnalysis{g: g, memo: map[*ssa.Function]*effectSet{}, stack: map[*ssa.Function]bool{}}
	}
	return g.eff
}

// compsOfType lists the heap components holding a value of type t stored at a location of kind k.
func compsOfLoc(prefix string, t types.Type, out map[string]bool, depth int) {
	if depth > 6 {
		return
	}
	switch kindOf(t) {
	case KStruct:
		// a struct value stored by value occupies the field components of its own type
		structComps(t, out, depth+1)
	case KArray:
		at := t.Underlying().(*types.Array)
		compsOfLoc("elems:"+typeKey(at.Elem()), at.Elem(), out, depth+1)
	default:
		for _, lf := range leavesOf(t) {
			out[prefix+lf.Path] = true
		}
	}
}

func structComps(t types.Type, out map[string]bool, depth int) {
	s := structOf(t)
	if s == nil || depth > 6 {
		return
	}
	for i := 0; i < s.NumFields(); i++ {
		ft := s.Field(i).Type()
		compsOfLoc(typeKey(t)+"."+s.Field(i).Name(), ft, out, depth+1)
	}
}

// storeComps: components written by `*addr = v` given the static shape of addr.
func storeComps(addr ssa.Value, out map[string]bool) {
	pt := derefType(addr.Type())
	if pt == nil {
		return
	}
	switch a := addr.(type) {
	case *ssa.FieldAddr:
		st := derefType(a.X.Type())
		s := structOf(st)
		if s != nil {
			compsOfLoc(typeKey(st)+"."+s.Field(a.Field).Name(), pt, out, 0)
			return
		}
	case *ssa.IndexAddr:
		compsOfLoc("elems:"+typeKey(pt), pt, out, 0)
		return
	case *ssa.Global:
		if v, ok := a.Object().(*types.Var); ok && v.Pkg() != nil {
			compsOfLoc("glob:"+v.Pkg().Name()+"."+v.Name(), pt, out, 0)
			return
		}
		compsOfLoc("glob:"+a.Pkg.Pkg.Name()+"."+a.Name(), pt, out, 0)
		return
	}
	// a first-class pointer: the pointee lives in the deref component of its type (struct pointees
	// in their field components) -- and, conservatively, a pointer to a scalar may be an interior
	// pointer the model keeps in a field/element component: that case is excluded by the heap model
	// (listed assumption: first-class pointers to non-struct values do not alias fields/elements)
	compsOfLoc("deref:"+typeKey(pt), pt, out, 0)
}

func (ea *effectAnalysis) of(fn *ssa.Function) *effectSet {
	if r, ok := ea.memo[fn]; ok {
		return r
	}
	if ea.stack[fn] {
		// recursion: the fixed point is reached by the caller's union (effects only grow)
		return &effectSet{comps: map[string]bool{}}
	}
	ea.stack[fn] = true
	defer delete(ea.stack, fn)
	res := &effectSet{comps: map[string]bool{}}
	if len(fn.Blocks) == 0 {
		res.top, res.why = true, "no body: "+funcKey(fn)
		ea.memo[fn] = res
		return res
	}
	for _, b := range fn.Blocks {
		for _, in := range b.Instrs {
			switch x := in.(type) {
			case *ssa.Store:
				storeComps(x.Addr, res.comps)
			case *ssa.MapUpdate:
				mt := x.Map.Type()
				res.comps["map:"+typeKey(mt)+".has"] = true
				if m, ok := mt.Underlying().(*types.Map); ok {
					if k := kindOf(m.Elem()); k != KStruct && k != KArray {
						for _, lf := range leavesOf(m.Elem()) {
							res.comps["map:"+typeKey(mt)+".val"+lf.Path] = true
						}
					}
				}
			case *ssa.Send, *ssa.Select:
				res.top, res.why = true, "channel operation in "+funcKey(fn)
			case ssa.CallInstruction:
				ea.callEffects(fn, x.Common(), res)
			}
			if res.top {
				break
			}
		}
	}
	ea.memo[fn] = res
	return res
}

func (ea *effectAnalysis) callEffects(caller *ssa.Function, c *ssa.CallCommon, res *effectSet) {
	if b, ok := c.Value.(*ssa.Builtin); ok {
		switch b.Name() {
		case "append", "copy":
			if len(c.Args) > 0 {
				if sl, ok := c.Args[0].Type().Underlying().(*types.Slice); ok {
					compsOfLoc("elems:"+typeKey(sl.Elem()), sl.Elem(), res.comps, 0)
				}
			}
		case "delete":
			res.comps["map:"+typeKey(c.Args[0].Type())+".has"] = true
		case "clear":
			res.top, res.why = true, "clear()"
		}
		return
	}
	if c.IsInvoke() {
		// interface method: union over the module's implementers, TOP if the interface is not
		// declared in the module (implementers elsewhere are unknown)
		named, ok := c.Value.Type().(*types.Named)
		if !ok || named.Obj().Pkg() == nil || !strings.HasPrefix(named.Obj().Pkg().Path(), "github.com/refraction-networking/utls") {
			res.top, res.why = true, "interface call "+c.Method.Name()+" on "+c.Value.Type().String()
			return
		}
		it := named.Underlying().(*types.Interface)
		found := false
		for _, t := range ea.g.allNamedTypes() {
			for _, tt := range []types.Type{t, types.NewPointer(t)} {
				if !types.Implements(tt, it) {
					continue
				}
				ms := ea.g.prog.MethodSets.MethodSet(tt)
				sel := ms.Lookup(c.Method.Pkg(), c.Method.Name())
				if sel == nil {
					continue
				}
				if m := ea.g.prog.MethodValue(sel); m != nil {
					found = true
					ea.addCallee(m, res)
				}
			}
		}
		if !found {
			res.top, res.why = true, "no implementer found for "+c.Method.Name()
		}
		return
	}
	fn := c.StaticCallee()
	if fn == nil {
		res.top, res.why = true, "call through a function value in "+funcKey(caller)
		return
	}
	ea.addCallee(fn, res)
}

func (ea *effectAnalysis) addCallee(fn *ssa.Function, res *effectSet) {
	key := funcKey(fn)
	switch key {
	case "sync.(*Mutex).Lock", "sync.(*Mutex).Unlock", "sync.(*RWMutex).Lock", "sync.(*RWMutex).Unlock",
		"sync.(*RWMutex).RLock", "sync.(*RWMutex).RUnlock":
		return
	}
	// a contract with a modifies clause is the callee's frame; trusted ones included
	if ct, ok := ea.g.contracts.Funcs[key]; ok && ct.HasMod {
		if len(ct.Modifies) == 0 {
			return
		}
		// targets are expressions: be conservative per target kind
		for _, m := range ct.Modifies {
			ea.modTargetComps(fn, m, res)
		}
		return
	}
	if !ea.g.isModuleFn(fn) {
		if pureExternal[key] {
			return
		}
		res.top, res.why = true, "external function without frame: "+key
		return
	}
	res.add(ea.of(fn))
}

// modTargetComps maps a declared modifies target to components using only static types.
func (ea *effectAnalysis) modTargetComps(fn *ssa.Function, m ModLoc, res *effectSet) {
	// resolve the static type of the target expression over the parameters
	var typeOf func(x Expr) types.Type
	params := map[string]types.Type{}
	for i, p := range fn.Params {
		params[p.Name()] = p.Type()
		params["$"+string(rune('0'+i))] = p.Type()
	}
	typeOf = func(x Expr) types.Type {
		switch n := x.(type) {
		case *EIdent:
			return params[n.Name]
		case *ESel:
			bt := typeOf(n.X)
			if bt == nil {
				return nil
			}
			if d := derefType(bt); d != nil {
				bt = d
			}
			if idx := findFieldPath(bt, n.Name); idx != nil {
				cur := bt
				for _, fi := range idx {
					cur = structOf(cur).Field(fi).Type()
				}
				return cur
			}
		case *EUn:
			if n.Op == "*" {
				if bt := typeOf(n.X); bt != nil {
					return derefType(bt)
				}
			}
		case *EIndex:
			if bt := typeOf(n.X); bt != nil {
				if sl, ok := bt.Underlying().(*types.Slice); ok {
					return sl.Elem()
				}
			}
		}
		return nil
	}
	switch n := m.E.(type) {
	case *ECall:
		if n.Fn == "ghostall" {
			if id, ok := n.Args[0].(*EIdent); ok {
				res.comps["ghost:"+id.Name] = true
				return
			}
		}
		if n.Fn == "ghost" {
			if id, ok := n.Args[0].(*EIdent); ok {
				res.comps["ghost:"+id.Name] = true
				return
			}
		}
		if n.Fn == "region" {
			if bt := typeOf(n.Args[0]); bt != nil {
				if sl, ok := bt.Underlying().(*types.Slice); ok {
					compsOfLoc("elems:"+typeKey(sl.Elem()), sl.Elem(), res.comps, 0)
					return
				}
			}
		}
	case *ESel:
		bt := typeOf(n.X)
		if bt != nil {
			if d := derefType(bt); d != nil {
				bt = d
			}
			if idx := findFieldPath(bt, n.Name); idx != nil {
				cur := bt
				for k, fi := range idx {
					f := structOf(cur).Field(fi)
					if k == len(idx)-1 {
						compsOfLoc(typeKey(cur)+"."+f.Name(), f.Type(), res.comps, 0)
						return
					}
					cur = f.Type()
				}
			}
		}
	case *EUn:
		if n.Op == "*" {
			if bt := typeOf(n.X); bt != nil {
				if pt := derefType(bt); pt != nil {
					compsOfLoc("deref:"+typeKey(pt), pt, res.comps, 0)
					// the caller may have passed an interior pointer (&x.f): callers handle that
					// case precisely through the contract, not through this summary
					return
				}
			}
		}
	case *EIdent:
		if bt := typeOf(n); bt != nil {
			if sl, ok := bt.Underlying().(*types.Slice); ok {
				compsOfLoc("elems:"+typeKey(sl.Elem()), sl.Elem(), res.comps, 0)
				return
			}
			if pt := derefType(bt); pt != nil && kindOf(pt) == KStruct {
				structComps(pt, res.comps, 0)
				return
			}
		}
	case *EIndex:
		if bt := typeOf(n.X); bt != nil {
			if sl, ok := bt.Underlying().(*types.Slice); ok {
				compsOfLoc("elems:"+typeKey(sl.Elem()), sl.Elem(), res.comps, 0)
				return
			}
		}
	}
	res.top, res.why = true, "modifies target not resolvable statically: "+m.Src
}

func (g *Global) allNamedTypes() []types.Type {
	if g.namedTypes != nil {
		return g.namedTypes
	}
	for _, p := range g.pkgs {
		sc := p.Types.Scope()
		for _, n := range sc.Names() {
			if tn, ok := sc.Lookup(n).(*types.TypeName); ok {
				if _, isIface := tn.Type().Underlying().(*types.Interface); !isIface {
					g.namedTypes = append(g.namedTypes, tn.Type())
				}
			}
		}
	}
	return g.namedTypes
}

func (e *effectSet) sorted() []string {
	var cs []string
	for c := range e.comps {
		cs = append(cs, c)
	}
	sort.Strings(cs)
	return cs
}
