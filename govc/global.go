package main

// Loading of /repo (the real source, on every run) into go/ssa and indexing.

import (
	"fmt"
	"go/token"
	"go/types"
	"os"
	"path/filepath"
	"sort"
	"strings"

	"golang.org/x/tools/go/packages"
	"golang.org/x/tools/go/ssa"
	"golang.org/x/tools/go/ssa/ssautil"
)

type UF struct {
	Name string
	Args []string
	Ret  string
}

type Global struct {
	fset      *token.FileSet
	prog      *ssa.Program
	pkgs      []*packages.Package
	spkgs     []*ssa.Package
	contracts *ContractSet
	funcs     map[string]*ssa.Function // key -> function (module packages and dependencies)
	tags      map[string]int           // type string -> interface tag
	tagTypes  []types.Type
	modPkgs   map[string]*types.Package // module packages by name
	allPkgs   map[string]*types.Package // every loaded package by name (first wins) and by path
	repoDir   string
	fnIDs     map[*ssa.Function]int
	knownOpen map[string]bool // obligation names (without @ordinal) listed as open known findings
	eff        *effectAnalysis
	namedTypes []types.Type
}

var modulePatterns = []string{".", "./internal/quicvarint", "./internal/helper", "./dicttls"}

func LoadGlobal(repoDir string, overlay map[string][]byte) (*Global, error) {
	cfg := &packages.Config{
		Mode:       packages.LoadAllSyntax,
		Dir:        repoDir,
		BuildFlags: []string{"-tags=verif"},
		Env:        append(os.Environ(), "GOFLAGS=-mod=mod", "GOPROXY=off"),
		Overlay:    overlay,
	}
	pkgs, err := packages.Load(cfg, modulePatterns...)
	if err != nil {
		return nil, err
	}
	nerr := 0
	packages.Visit(pkgs, nil, func(p *packages.Package) {
		for _, e := range p.Errors {
			if nerr < 10 {
				fmt.Fprintln(os.Stderr, "load error:", e)
			}
			nerr++
		}
	})
	if nerr > 0 {
		return nil, fmt.Errorf("%d errors loading %s", nerr, repoDir)
	}
	prog, spkgs := ssautil.AllPackages(pkgs, ssa.GlobalDebug|ssa.InstantiateGenerics)
	prog.Build()
	g := &Global{fset: prog.Fset, prog: prog, pkgs: pkgs, spkgs: spkgs, funcs: map[string]*ssa.Function{},
		tags: map[string]int{}, modPkgs: map[string]*types.Package{}, allPkgs: map[string]*types.Package{}, repoDir: repoDir}
	for _, p := range pkgs {
		g.modPkgs[p.Types.Name()] = p.Types
	}
	for _, p := range prog.AllPackages() {
		if _, ok := g.allPkgs[p.Pkg.Name()]; !ok {
			g.allPkgs[p.Pkg.Name()] = p.Pkg
		}
		g.allPkgs[p.Pkg.Path()] = p.Pkg
	}
	for n, p := range g.modPkgs {
		g.allPkgs[n] = p
	}
	for fn := range ssautil.AllFunctions(prog) {
		if fn.Pkg == nil && fn.Parent() == nil && fn.Synthetic != "" {
			continue
		}
		k := funcKey(fn)
		if k == "" {
			continue
		}
		if old, ok := g.funcs[k]; ok {
			// prefer module packages
			if g.isModuleFn(old) {
				continue
			}
		}
		g.funcs[k] = fn
	}
	// contracts
	g.knownOpen = map[string]bool{}
	vdir := os.Getenv("VERIF_DIR")
	if vdir == "" {
		vdir = "/verif"
	}
	for _, kf := range loadKnownFindings(vdir) {
		if kf.Status == "open" {
			g.knownOpen[kf.Obligation] = true
		}
	}
	g.contracts = NewContractSet()
	for _, p := range pkgs {
		dir := repoDir
		if len(p.GoFiles) > 0 {
			dir = filepath.Dir(p.GoFiles[0])
		}
		matches, _ := filepath.Glob(filepath.Join(dir, "verif_contracts*.go"))
		sort.Strings(matches)
		for _, m := range matches {
			src := m
			if overlay != nil {
				if _, ok := overlay[m]; ok {
					// contracts are never overlaid; ignore
				}
			}
			if err := g.contracts.LoadContractFile(src, p.Types.Name(), false); err != nil {
				if os.Getenv("GOVC_LENIENT") != "" {
					fmt.Fprintln(os.Stderr, "WARNING: skipping rest of contract file:", err)
					continue
				}
				return nil, err
			}
		}
	}
	// `//@ func lowerType.Method` was read as package-qualified; re-key it if that is what exists
	for k, c := range g.contracts.Funcs {
		if _, ok := g.funcs[k]; ok || c.Trusted || c.Interface {
			continue
		}
		alt := c.PkgName + "." + k
		if _, ok := g.funcs[alt]; ok {
			if _, clash := g.contracts.Funcs[alt]; !clash {
				delete(g.contracts.Funcs, k)
				c.Key = alt
				g.contracts.Funcs[alt] = c
			}
		}
	}
	tdir := os.Getenv("GOVC_TRUSTED_DIR")
	if tdir == "" {
		tdir = "/verif/contracts/trusted"
	}
	tm, _ := filepath.Glob(filepath.Join(tdir, "*.vc"))
	sort.Strings(tm)
	for _, m := range tm {
		if err := g.contracts.LoadContractFile(m, "tls", true); err != nil {
			return nil, err
		}
	}
	return g, nil
}

func (g *Global) isModuleFn(fn *ssa.Function) bool {
	p := fn.Pkg
	if p == nil && fn.Parent() != nil {
		p = fn.Parent().Pkg
	}
	if p == nil {
		return false
	}
	return strings.HasPrefix(p.Pkg.Path(), "github.com/refraction-networking/utls")
}

func fnPackage(fn *ssa.Function) *types.Package {
	for f := fn; f != nil; f = f.Parent() {
		if f.Pkg != nil {
			return f.Pkg.Pkg
		}
	}
	if fn.Object() != nil {
		return fn.Object().Pkg()
	}
	if o := fn.Origin(); o != nil && o != fn {
		return fnPackage(o)
	}
	return nil
}

// funcKey returns the contract key of an SSA function: pkgname.Func, pkgname.(*T).M,
// pkgname.T.M, and Outer$1 for closures.
func funcKey(fn *ssa.Function) string {
	pkg := fnPackage(fn)
	pn := ""
	if pkg != nil {
		pn = pkg.Name()
	}
	if fn.Parent() != nil {
		return funcKey(fn.Parent()) + strings.TrimPrefix(fn.Name(), fn.Parent().Name())
	}
	if recv := fn.Signature.Recv(); recv != nil {
		rt := recv.Type()
		ptr := false
		if p, ok := rt.(*types.Pointer); ok {
			ptr = true
			rt = p.Elem()
		}
		name := ""
		if n, ok := rt.(*types.Named); ok {
			name = n.Obj().Name()
			if n.Obj().Pkg() != nil {
				pn = n.Obj().Pkg().Name()
			}
		} else {
			name = rt.String()
		}
		if ptr {
			return fmt.Sprintf("%s.(*%s).%s", pn, name, baseName(fn))
		}
		return fmt.Sprintf("%s.%s.%s", pn, name, baseName(fn))
	}
	return pn + "." + baseName(fn)
}

// baseName is the function's name without the type-argument suffix of a generic instantiation
// (slices.Contains[[]uint16 uint16] -> Contains): one contract serves every instantiation.
func baseName(fn *ssa.Function) string {
	n := fn.Name()
	if i := strings.Index(n, "["); i > 0 {
		return n[:i]
	}
	return n
}

func (g *Global) tagOf(t types.Type) int {
	k := t.String()
	if n, ok := g.tags[k]; ok {
		return n
	}
	n := len(g.tags) + 1
	g.tags[k] = n
	g.tagTypes = append(g.tagTypes, t)
	return n
}

// pkgByName resolves a package name as seen from package `from`.
func (g *Global) pkgByName(name string, from *types.Package) *types.Package {
	if from != nil {
		for _, imp := range from.Imports() {
			if imp.Name() == name {
				return imp
			}
		}
		if from.Name() == name {
			return from
		}
	}
	if p, ok := g.modPkgs[name]; ok {
		return p
	}
	if p, ok := g.allPkgs[name]; ok {
		return p
	}
	return nil
}

// preassignTags gives every named type of the module packages that has methods a stable tag
// (sorted by name) so that tags do not depend on traversal order.
func (g *Global) preassignTags() {
	var names []string
	seen := map[string]types.Type{}
	for _, p := range g.pkgs {
		sc := p.Types.Scope()
		for _, n := range sc.Names() {
			if tn, ok := sc.Lookup(n).(*types.TypeName); ok {
				t := tn.Type()
				if _, isIface := t.Underlying().(*types.Interface); isIface {
					continue
				}
				for _, tt := range []types.Type{t, types.NewPointer(t)} {
					seen[tt.String()] = tt
					names = append(names, tt.String())
				}
			}
		}
	}
	sort.Strings(names)
	for _, n := range names {
		g.tagOf(seen[n])
	}
}
