package main

// `govc check <ID> <tier>`: the per-property check used by MANIFEST.json.

import (
	"encoding/json"
	"fmt"
	"os"
	"path/filepath"
	"sort"
	"strconv"
	"strings"
	"sync"
	"time"
)

type KnownFinding struct {
	Property   string `json:"property"`
	Obligation string `json:"obligation"` // obligation name up to (not including) the "@" ordinal suffix
	What       string `json:"what"`
	Status     string `json:"status"` // "open" or "fixed"
	Commit     string `json:"commit,omitempty"`
	Witness    string `json:"witness,omitempty"`
}

func loadKnownFindings(verifDir string) []KnownFinding {
	data, err := os.ReadFile(filepath.Join(verifDir, "known_findings.json"))
	if err != nil {
		return nil
	}
	var kf struct {
		Findings []KnownFinding `json:"findings"`
	}
	if err := json.Unmarshal(data, &kf); err != nil {
		fmt.Fprintln(os.Stderr, "known_findings.json:", err)
		os.Exit(2)
	}
	return kf.Findings
}

var retrySem = make(chan struct{}, 3)

func stripOrdinal(name string) string {
	if i := strings.LastIndex(name, "@"); i >= 0 {
		return name[:i]
	}
	return name
}

type evidenceObl struct {
	Name   string  `json:"name"`
	Kind   string  `json:"kind"`
	Status string  `json:"status"`
	Solver string  `json:"solver"`
	TimeS  float64 `json:"time_s"`
	Pos    string  `json:"pos,omitempty"`
}

func cmdCheck(args []string) int {
	if len(args) < 2 {
		fmt.Fprintln(os.Stderr, "usage: govc check <ID> quick|thorough")
		return 2
	}
	id, tier := args[0], args[1]
	verifDir := os.Getenv("VERIF_DIR")
	if verifDir == "" {
		verifDir = "/verif"
	}
	repo := os.Getenv("VERIF_REPO")
	if repo == "" {
		repo = "/repo"
	}
	seed := 0
	if s := os.Getenv("VERIF_SEED"); s != "" {
		seed, _ = strconv.Atoi(s)
	}
	timeout := 15 * time.Second
	if tier == "thorough" {
		timeout = 60 * time.Second
	}
	t0 := time.Now()
	evPath := filepath.Join(verifDir, "evidence", id+".json")
	os.MkdirAll(filepath.Dir(evPath), 0o755)
	os.Remove(evPath)
	replayDir := filepath.Join(verifDir, "replays", id)
	os.RemoveAll(replayDir)

	violations := 0
	violate := func(obl, reason, detail string, confirmed bool) {
		os.MkdirAll(replayDir, 0o755)
		p := filepath.Join(replayDir, sanitize(obl)+".json")
		rec := map[string]interface{}{"property": id, "obligation": obl, "reason": reason, "detail": detail, "replay_confirmed": confirmed}
		b, _ := json.MarshalIndent(rec, "", " ")
		os.WriteFile(p, b, 0o644)
		suffix := ""
		if !confirmed {
			suffix = " no-failing-input-found"
		}
		fmt.Printf("VIOLATION property=%s replay=%s obligation=%s reason=%q%s\n", id, p, obl, reason, suffix)
		violations++
	}

	g, err := LoadGlobal(repo, nil)
	if err != nil {
		// the tree does not load/compile with the contracts: cannot decide anything
		fmt.Fprintln(os.Stderr, "load:", err)
		fmt.Printf("ERROR property=%s cannot load %s: %v\n", id, repo, err)
		return 2
	}
	cs, missing := selectFuncs(g, id, "")
	for _, m := range missing {
		violate(m+"#target", "contract target missing", "the function named by a contract of this property no longer exists in "+repo, false)
	}
	var closureFns []string
	closureSet := map[string]bool{}
	if tier == "thorough" {
		for _, c := range contractClosure(g, cs) {
			closureFns = append(closureFns, c.Key)
			closureSet[c.Key] = true
			cs = append(cs, c)
		}
	}
	frs := generateAll(g, cs)
	lemmas := lemmaResults(g, id)
	frs = append(frs, lemmas...)
	if len(cs) == 0 && len(lemmas) == 0 && len(missing) == 0 {
		fmt.Printf("ERROR property=%s has no contracts\n", id)
		return 2
	}
	var assumptions []string
	asmSet := map[string]bool{}
	trusted := map[string]bool{}
	var funcs []string
	for _, fr := range frs {
		funcs = append(funcs, fr.Key)
		if fr.Err != nil {
			violate(fr.Key+"#contract", "contract does not apply to the current code", fr.Err.Error(), false)
		}
		for _, u := range fr.Unsupported {
			violate(fr.Key+"#subset", "function left the verifiable subset", u, false)
		}
		for _, a := range fr.Assumptions {
			asmSet[a] = true
		}
		if fr.MathArith {
			asmSet["signed machine arithmetic treated as mathematical in "+fr.Key+" (no overflow obligations requested)"] = true
		}
		for _, t := range fr.Trusted {
			trusted[t] = true
		}
		for _, o := range fr.Opaque {
			asmSet["opaque call (no contract; all heap havocked, result unconstrained): "+o+" in "+fr.Key] = true
		}
	}
	results := discharge(frs, timeout, true)
	// An obligation that was not decided (timeout/unknown, e.g. on a loaded machine) gets one
	// more attempt with a six-fold budget before it is reported; `sat` answers are final.
	retried := 0
	var rwg sync.WaitGroup
	for _, r := range results {
		if r.O.Cover || r.OK || r.R.Status == "sat" || r.Script == "" || retried >= 16 || g.knownOpen[stripOrdinal(r.O.Name)] {
			continue
		}
		retried++
		rwg.Add(1)
		go func(r *OblResult) {
			defer rwg.Done()
			retrySem <- struct{}{} // few at a time: the second attempt should not compete with itself
			defer func() { <-retrySem }()
			r2 := Solve(r.Script, 6*timeout, false)
			if r2.Status == "unsat" || r2.Status == "sat" {
				r2.Time += r.R.Time
				r.R = r2
				r.OK = r2.Status == "unsat"
			}
		}(r)
	}
	rwg.Wait()
	kfs := loadKnownFindings(verifDir)
	failedFns := map[string]bool{}
	for _, r := range results {
		if !r.O.Cover && !r.OK {
			failedFns[r.O.Fn] = true
		}
	}
	var evObls []evidenceObl
	nObl, nDis := 0, 0
	var vacuous []string
	solverTime := 0.0
	bySolver := map[string]int{}
	knownPrinted := map[string]bool{}
	nWitness := 0
	for _, r := range results {
		solverTime += r.R.Time
		if r.O.Cover {
			if !r.OK && !failedFns[r.O.Fn] {
				vacuous = append(vacuous, r.O.Name)
			}
			continue
		}
		isKnown := false
		if !r.OK {
			for _, kf := range kfs {
				if (kf.Property == id || closureSet[r.O.Fn]) && kf.Status == "open" && kf.Obligation == stripOrdinal(r.O.Name) {
					isKnown = true
					if !knownPrinted[kf.Obligation] {
						knownPrinted[kf.Obligation] = true
						fmt.Printf("KNOWN-FINDING: property=%s %s (%s)\n", id, kf.What, kf.Obligation)
					}
				}
			}
		}
		evObls = append(evObls, evidenceObl{Name: r.O.Name, Kind: r.O.Kind, Status: r.R.Status, Solver: r.R.Solver, TimeS: round3(r.R.Time), Pos: r.O.Pos})
		if isKnown {
			continue
		}
		nObl++
		if r.OK {
			nDis++
			bySolver[r.R.Solver]++
			continue
		}
		// failed obligation
		detail := r.O.Descr + " @ " + r.O.Pos + "\nsolver: " + r.R.Solver + " " + r.R.Status + "\n" + firstLines(r.R.Output, 60)
		confirmed := false
		reason := "obligation not discharged (" + r.R.Status + ")"
		if r.R.Status == "sat" {
			reason = "obligation refuted"
			if rep := safeReplay(func() *ReplayResult { return tryReplay(g, r, replayDir) }); rep != nil {
				confirmed = rep.Confirmed
				detail += "\n--- replay ---\n" + rep.Log
			}
		}
		if !confirmed && nWitness < 6 {
			// no model (quantified context), or the model did not replay: search a candidate input
			// with the quantified facts relaxed and try it on the real code
			nWitness++
			if rep := safeReplay(func() *ReplayResult { return replayObligation(g, r, true) }); rep != nil {
				if rep.Confirmed {
					confirmed = true
					reason += "; failing input found by relaxed witness search and confirmed on the real code"
				}
				detail += "\n--- witness search (quantifiers relaxed) ---\n" + rep.Log
			}
		}
		os.MkdirAll(replayDir, 0o755)
		os.WriteFile(filepath.Join(replayDir, sanitize(r.O.Name)+".smt2"), []byte(r.Script+"(check-sat)\n(get-model)\n"), 0o644)
		violate(r.O.Name, reason, detail, confirmed)
	}
	sort.Strings(funcs)
	for a := range asmSet {
		assumptions = append(assumptions, a)
	}
	sort.Strings(assumptions)
	assumptions = append(assumptions,
		"go/ssa lowering (golang.org/x/tools v0.29.0) and the VC generator govc are trusted",
		"slice/string lengths are at most 2^48 (machine limit)",
		"typed component heaps: no unsafe pointer casts between distinct types",
		"sequential reasoning only: no goroutine interleavings are considered")
	var tb []string
	for t := range trusted {
		tb = append(tb, "trusted contract: "+t)
	}
	sort.Strings(tb)
	tb = append([]string{"z3 5.1.0 (z3-new)", "z3 4.8.12", "cvc5 1.0", "golang.org/x/tools/go/ssa v0.29.0", "govc VC generator (/verif/govc)"}, tb...)
	var samples []interface{}
	for i, e := range evObls {
		if i%((len(evObls)/6)+1) == 0 {
			samples = append(samples, e)
		}
	}
	if len(samples) == 0 {
		samples = append(samples, "none")
	}
	ev := map[string]interface{}{
		"property_id": id,
		"tier":        tier,
		"seed":        seed,
		"level":       "proof",
		"coverage": map[string]interface{}{
			"obligations":            nObl,
			"discharged":             nDis,
			"checker_cmd":            "/verif/check " + id + " " + tier,
			"trusted_base":           tb,
			"functions_under_contract": funcs,
			"callee_contracts_also_verified_in_this_tier": closureFns,
			"discharged_by_solver":   bySolver,
			"solver_time_s":          round3(solverTime),
			"vacuity_probes_failed":  vacuous,
			"samples":                samples,
			"all_obligations":        evObls,
			"timeout_s":              timeout.Seconds(),
		},
		"assumptions": assumptions,
		"wall_s":      round3(time.Since(t0).Seconds()),
		"violations":  violations,
	}
	b, _ := json.MarshalIndent(ev, "", " ")
	if err := os.WriteFile(evPath, b, 0o644); err != nil {
		fmt.Fprintln(os.Stderr, err)
		return 2
	}
	for _, v := range vacuous {
		fmt.Printf("WARNING vacuity probe failed (unreachable or contradictory context): %s\n", v)
	}
	fmt.Printf("property=%s tier=%s functions=%d obligations=%d discharged=%d violations=%d wall=%.1fs\n", id, tier, len(funcs), nObl, nDis, violations, time.Since(t0).Seconds())
	if violations > 0 {
		return 1
	}
	return 0
}

func round3(f float64) float64 { return float64(int(f*1000+0.5)) / 1000 }

type ReplayResult struct {
	Confirmed bool
	Log       string
}
