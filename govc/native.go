package main

// Native models of a few generic standard-library helpers (part of the trusted base; listed in
// the evidence when used):
//   slices.Contains(s, v)        ret <==> exists i in 0..len(s): s[i] == v
//   slices.ContainsFunc(s, f)    ret <==> exists i in 0..len(s): P(s[i])
//     where f is a closure of the function under contract whose OWN contract has a clause
//     `ensures ret <==> P` (P over the closure's parameter and captured variables); the closure is
//     verified against that contract like any other function, here only its contract is used.

import (
	"fmt"
	"strings"
	"go/types"

	"golang.org/x/tools/go/ssa"
)

func (vc *VC) nativeModel(st *State, fn *ssa.Function, key string, args []Val, rt types.Type) (Val, bool) {
	if isRandShuffle(fn) {
		return vc.nativeShuffle(st, fn, args)
	}
	if strings.HasPrefix(key, "cryptobyte.(*Builder).AddUint") && strings.HasSuffix(key, "LengthPrefixed") && len(args) == 2 {
		// golang.org/x/crypto/cryptobyte: AddUintNLengthPrefixed(f) calls f exactly once with a child
		// builder and touches builder-private state only. When f is a closure of the function under
		// contract that has its own (verified) contract, the call is the closure's contract applied to
		// a fresh builder; otherwise the generic treatment of opaque calls applies.
		if cl, ok := vc.closures[args[1].S]; ok && args[1].S != "" && len(cl.fn.Params) == 1 {
			if ct := vc.lookupContract(cl.fn); ct != nil {
				child := Val{T: cl.fn.Params[0].Type(), K: KPtr, S: vc.allocID(st)}
				var fvNames []string
				for _, f := range cl.fn.FreeVars {
					fvNames = append(fvNames, f.Name())
				}
				vc.applyContract(st, ct, funcKey(cl.fn), cl.fn.Signature, fnPackage(cl.fn), []string{cl.fn.Params[0].Name()}, []Val{child}, fvNames, cl.bindings, nil)
				vc.trustedUsed["native model: cryptobyte Builder.AddUintNLengthPrefixed calls its callback once (contract of closure "+funcKey(cl.fn)+" applied)"] = true
				return Val{K: KUnit}, true
			}
		}
	}
	switch key {
	case "slices.Contains":
		if len(args) != 2 || args[0].K != KSlice {
			return Val{}, false
		}
		env := &Env{vc: vc, st: st, vars: map[string]Val{}, pkg: vc.pkg()}
		vc.counter++
		bv := fmt.Sprintf("q!c!%d", vc.counter)
		elem := env.index(args[0], mathInt(bv))
		var eqT Term
		func() {
			defer func() {
				if r := recover(); r != nil {
					eqT = ""
				}
			}()
			eqT = valsEqual(vc, env.force(elem), args[1])
		}()
		if eqT == "" {
			return Val{}, false
		}
		res := vc.fresh("r.Contains")
		vc.declare(res, "Bool")
		vc.assume(st, eq(res, fmt.Sprintf("(exists ((%s Int)) %s)", bv, and(app("<=", "0", bv), app("<", bv, args[0].Sl[2]), eqT))))
		vc.trustedUsed["native model: slices.Contains"] = true
		return boolVal(res), true
	case "slices.ContainsFunc":
		if len(args) != 2 || args[0].K != KSlice {
			return Val{}, false
		}
		cl, ok := vc.closures[args[1].S]
		if !ok || args[1].S == "" {
			return Val{}, false
		}
		ct := vc.lookupContract(cl.fn)
		if ct == nil || len(cl.fn.Params) != 1 {
			return Val{}, false
		}
		// find `ensures ret <==> P` (or `ret == P`)
		var P Expr
		for _, en := range ct.Ensures {
			if b, ok := en.E.(*EBin); ok && (b.Op == "<==>" || b.Op == "==") {
				if id, ok := b.X.(*EIdent); ok && (id.Name == "ret" || id.Name == "ret0") {
					P = b.Y
					break
				}
			}
		}
		if P == nil {
			return Val{}, false
		}
		vc.counter++
		bv := fmt.Sprintf("q!cf!%d", vc.counter)
		env := &Env{vc: vc, st: st, vars: map[string]Val{}, pkg: fnPackage(cl.fn)}
		base := &Env{vc: vc, st: st, vars: map[string]Val{}, pkg: vc.pkg()}
		elem := base.force(base.index(args[0], mathInt(bv)))
		elem.T = cl.fn.Params[0].Type()
		env.vars[cl.fn.Params[0].Name()] = elem
		env.vars["$0"] = elem
		for i, fv := range cl.fn.FreeVars {
			if i < len(cl.bindings) {
				env.vars[fv.Name()] = cl.bindings[i]
			}
		}
		for _, l := range ct.Lets {
			v, err := env.EvalVal(l.E)
			if err != nil {
				return Val{}, false
			}
			env.vars[l.Name] = v
		}
		pt, err := env.EvalBool(P)
		if err != nil {
			return Val{}, false
		}
		res := vc.fresh("r.ContainsFunc")
		vc.declare(res, "Bool")
		vc.assume(st, eq(res, fmt.Sprintf("(exists ((%s Int)) %s)", bv, and(app("<=", "0", bv), app("<", bv, args[0].Sl[2]), pt))))
		vc.trustedUsed["native model: slices.ContainsFunc (uses the verified contract of closure "+funcKey(cl.fn)+")"] = true
		return boolVal(res), true
	}
	return Val{}, false
}
