package main

// Contract language: lexer, expression parser, contract-file parser.
// Contracts are structured comments (`//@ ...`) in comment-only Go files that
// are compiled only under the build tag `verif` (see DESIGN.md §3).

import (
	"fmt"
	"math/big"
	"os"
	"path/filepath"
	"sort"
	"strconv"
	"strings"
)

// ---------- expression AST ----------

type Expr interface{}

type EIdent struct{ Name string }
type EInt struct{ V *big.Int }
type EBool struct{ V bool }
type EFloat struct{ V float64 }
type EStr struct{ V string }
type ENil struct{}
type EUn struct {
	Op string
	X  Expr
}
type EBin struct {
	Op   string
	X, Y Expr
}
type ESel struct {
	X    Expr
	Name string
}
type EIndex struct{ X, I Expr }
type ESlice struct{ X, Lo, Hi Expr } // x[lo:hi]; Lo/Hi may be nil
type ECall struct {
	Fn   string
	Args []Expr
}
type EQuant struct {
	Forall bool
	Var    string
	Lo, Hi Expr // lo <= v < hi; both nil => unbounded Int
	Body   Expr
}
type ETypeAssert struct {
	X    Expr
	Type string // e.g. "*SNIExtension"
}
type ETypeLit struct{ Type string } // used as argument of istype(x, *T)

// ---------- lexer ----------

type tok struct {
	k string // "id","int","str","op","eof"
	s string
}

func lex(src string) ([]tok, error) {
	var out []tok
	i := 0
	ops := []string{"<==>", "==>", "&&", "||", "==", "!=", "<=", ">=", "<<", ">>", "&^", "..",
		"<", ">", "+", "-", "*", "/", "%", "&", "|", "^", "!", "(", ")", "[", "]", ".", ",", ":", "{", "}"}
	for i < len(src) {
		c := src[i]
		if c == ' ' || c == '\t' {
			i++
			continue
		}
		if c >= '0' && c <= '9' {
			j := i
			for j < len(src) && (isAlnum(src[j]) || src[j] == '_') {
				j++
			}
			if j+1 < len(src) && src[j] == '.' && src[j+1] >= '0' && src[j+1] <= '9' {
				j++
				for j < len(src) && src[j] >= '0' && src[j] <= '9' {
					j++
				}
				out = append(out, tok{"float", src[i:j]})
				i = j
				continue
			}
			out = append(out, tok{"int", strings.ReplaceAll(src[i:j], "_", "")})
			i = j
			continue
		}
		if isAlpha(c) || c == '_' || c == '$' {
			j := i + 1
			for j < len(src) && (isAlnum(src[j]) || src[j] == '_' || src[j] == '$') {
				j++
			}
			out = append(out, tok{"id", src[i:j]})
			i = j
			continue
		}
		if c == '"' {
			j := i + 1
			for j < len(src) && src[j] != '"' {
				if src[j] == '\\' {
					j++
				}
				j++
			}
			if j >= len(src) {
				return nil, fmt.Errorf("unterminated string")
			}
			s, err := strconv.Unquote(src[i : j+1])
			if err != nil {
				return nil, err
			}
			out = append(out, tok{"str", s})
			i = j + 1
			continue
		}
		matched := false
		for _, op := range ops {
			if strings.HasPrefix(src[i:], op) {
				out = append(out, tok{"op", op})
				i += len(op)
				matched = true
				break
			}
		}
		if !matched {
			return nil, fmt.Errorf("unexpected character %q in %q", c, src)
		}
	}
	out = append(out, tok{"eof", ""})
	return out, nil
}

func isAlpha(c byte) bool { return (c >= 'a' && c <= 'z') || (c >= 'A' && c <= 'Z') }
func isAlnum(c byte) bool { return isAlpha(c) || (c >= '0' && c <= '9') }

// ---------- parser ----------

type parser struct {
	t []tok
	p int
}

func (p *parser) peek() tok { return p.t[p.p] }
func (p *parser) next() tok { t := p.t[p.p]; p.p++; return t }
func (p *parser) isOp(s string) bool {
	return p.t[p.p].k == "op" && p.t[p.p].s == s
}
func (p *parser) isID(s string) bool {
	return p.t[p.p].k == "id" && p.t[p.p].s == s
}
func (p *parser) expectOp(s string) {
	if !p.isOp(s) {
		panic(fmt.Errorf("expected %q, got %q", s, p.peek().s))
	}
	p.p++
}

func parseExpr0(src string) (e Expr, err error) {
	toks, err := lex(src)
	if err != nil {
		return nil, err
	}
	p := &parser{t: toks}
	defer func() {
		if r := recover(); r != nil {
			if re, ok := r.(error); ok {
				err = fmt.Errorf("%v in %q", re, src)
				return
			}
			panic(r)
		}
	}()
	e = p.parseIff()
	if p.peek().k != "eof" {
		return nil, fmt.Errorf("trailing tokens at %q in %q", p.peek().s, src)
	}
	return e, nil
}

func (p *parser) parseIff() Expr {
	x := p.parseImp()
	for p.isOp("<==>") {
		p.next()
		y := p.parseImp()
		x = &EBin{"<==>", x, y}
	}
	return x
}

func (p *parser) parseImp() Expr {
	x := p.parseOr()
	if p.isOp("==>") {
		p.next()
		y := p.parseImp()
		return &EBin{"==>", x, y}
	}
	return x
}

func (p *parser) parseOr() Expr {
	x := p.parseAnd()
	for p.isOp("||") {
		p.next()
		y := p.parseAnd()
		x = &EBin{"||", x, y}
	}
	return x
}

func (p *parser) parseAnd() Expr {
	x := p.parseCmp()
	for p.isOp("&&") {
		p.next()
		y := p.parseCmp()
		x = &EBin{"&&", x, y}
	}
	return x
}

func (p *parser) parseCmp() Expr {
	x := p.parseAdd()
	for {
		t := p.peek()
		if t.k == "op" && (t.s == "==" || t.s == "!=" || t.s == "<" || t.s == "<=" || t.s == ">" || t.s == ">=") {
			p.next()
			y := p.parseAdd()
			x = &EBin{t.s, x, y}
			continue
		}
		return x
	}
}

func (p *parser) parseAdd() Expr {
	x := p.parseMul()
	for {
		t := p.peek()
		if t.k == "op" && (t.s == "+" || t.s == "-" || t.s == "|" || t.s == "^") {
			p.next()
			y := p.parseMul()
			x = &EBin{t.s, x, y}
			continue
		}
		return x
	}
}

func (p *parser) parseMul() Expr {
	x := p.parseUnary()
	for {
		t := p.peek()
		if t.k == "op" && (t.s == "*" || t.s == "/" || t.s == "%" || t.s == "<<" || t.s == ">>" || t.s == "&" || t.s == "&^") {
			p.next()
			y := p.parseUnary()
			x = &EBin{t.s, x, y}
			continue
		}
		return x
	}
}

func (p *parser) parseUnary() Expr {
	t := p.peek()
	if t.k == "op" && (t.s == "!" || t.s == "-" || t.s == "*" || t.s == "^") {
		p.next()
		x := p.parseUnary()
		return &EUn{t.s, x}
	}
	return p.parsePostfix()
}

func (p *parser) parseType() string {
	s := ""
	for p.isOp("*") || p.isOp("[") {
		if p.isOp("[") {
			p.next()
			p.expectOp("]")
			s += "[]"
		} else {
			p.next()
			s += "*"
		}
	}
	t := p.next()
	if t.k != "id" {
		panic(fmt.Errorf("expected type name, got %q", t.s))
	}
	s += t.s
	if p.isOp(".") {
		p.next()
		t2 := p.next()
		s += "." + t2.s
	}
	return s
}

func (p *parser) parsePostfix() Expr {
	x := p.parsePrimary()
	for {
		if p.isOp(".") {
			p.next()
			if p.isOp("(") {
				p.next()
				ty := p.parseType()
				p.expectOp(")")
				x = &ETypeAssert{x, ty}
				continue
			}
			t := p.next()
			if t.k != "id" {
				panic(fmt.Errorf("expected field name after '.', got %q", t.s))
			}
			x = &ESel{x, t.s}
			continue
		}
		if p.isOp("[") {
			p.next()
			var lo, hi Expr
			if p.isOp(":") {
				p.next()
				if !p.isOp("]") {
					hi = p.parseAdd()
				}
				p.expectOp("]")
				x = &ESlice{x, nil, hi}
				continue
			}
			lo = p.parseIff()
			if p.isOp(":") {
				p.next()
				if !p.isOp("]") {
					hi = p.parseAdd()
				}
				p.expectOp("]")
				x = &ESlice{x, lo, hi}
				continue
			}
			p.expectOp("]")
			x = &EIndex{x, lo}
			continue
		}
		return x
	}
}

func (p *parser) parsePrimary() Expr {
	t := p.next()
	switch t.k {
	case "int":
		v := new(big.Int)
		if _, ok := v.SetString(t.s, 0); !ok {
			panic(fmt.Errorf("bad integer %q", t.s))
		}
		return &EInt{v}
	case "float":
		f, err := strconv.ParseFloat(t.s, 64)
		if err != nil {
			panic(fmt.Errorf("bad float %q", t.s))
		}
		return &EFloat{f}
	case "str":
		return &EStr{t.s}
	case "id":
		switch t.s {
		case "true":
			return &EBool{true}
		case "false":
			return &EBool{false}
		case "nil":
			return &ENil{}
		case "forall", "exists":
			v := p.next()
			if v.k != "id" {
				panic(fmt.Errorf("expected variable after %s", t.s))
			}
			var lo, hi Expr
			if p.isID("in") {
				p.next()
				lo = p.parseAdd()
				if kc, ok := lo.(*ECall); ok && kc.Fn == "keys" && !p.isOp("..") {
					// forall v in keys(m): expanded over the statically known keys of map m
					hi = nil
				} else {
					p.expectOp("..")
					hi = p.parseAdd()
				}
			}
			p.expectOp(":")
			body := p.parseIff()
			return &EQuant{t.s == "forall", v.s, lo, hi, body}
		}
		if p.isOp("(") {
			p.next()
			var args []Expr
			for !p.isOp(")") {
				if (t.s == "istype" || t.s == "implements") && len(args) == 1 {
					args = append(args, &ETypeLit{p.parseType()})
				} else {
					args = append(args, p.parseIff())
				}
				if p.isOp(",") {
					p.next()
				}
			}
			p.expectOp(")")
			return &ECall{t.s, args}
		}
		return &EIdent{t.s}
	case "op":
		if t.s == "(" {
			x := p.parseIff()
			p.expectOp(")")
			return x
		}
	}
	panic(fmt.Errorf("unexpected token %q", t.s))
}

// ---------- contracts ----------

type Clause struct {
	Tag  string // optional label
	Src  string
	E    Expr
	File string
	Line int
}

type ModLoc struct {
	Src string
	E   Expr // location expression: x.f, *p, b (whole slice contents), b[lo..hi] parsed as ECall{"region",[b,lo,hi]}
}

type LoopSpec struct {
	Entry      []Clause // `loop N entry TAG: P`: proved when the loop is entered, neither assumed nor kept
	Invariants []Clause
	Modifies   []ModLoc // optional region frame for the loop
	Decreases  *Clause
}

type SpecFunc struct {
	Name   string
	Params []string
	Body   Expr
	Src    string
}

type Lemma struct {
	Name     string
	Params   []string // names; all Int-sorted unless suffixed ":bool"
	Requires []Clause
	Ensures  []Clause
	Props    []string
	File     string
	Line     int
}

type Contract struct {
	Key        string // "pkgname.Func" or "pkgname.(*T).M" / "pkgname.T.M"
	Props      []string
	Requires   []Clause
	Ensures    []Clause
	Lets       []struct{ Name string; E Expr }
	Modifies   []ModLoc
	HasMod     bool // a modifies clause was given (possibly "nothing")
	Loops      map[int]*LoopSpec
	Asserts    []AtClause
	Trusted    bool // assumed, never verified (dependencies)
	Safe       bool
	Overflow   bool
	NoTrunc    bool
	PanicsWhen []Clause // panics are allowed exactly under these conditions
	Interface  bool     // contract of an interface method
	Pure       bool
	Opaque     []string // callee keys to treat as opaque even if they have contracts
	AssumePure []string // call display names assumed to leave the visible heap unchanged
	Use        map[string][]string // callee method/function name -> the only ensures tags assumed at its call sites
	Ghost      []string
	File       string
	Line       int
	PkgName    string
	TrackLocks bool // `track locks`: sync.Mutex/RWMutex operations update ghost(lockst, m): 0 free, 1 read-locked, 2 locked
	NoSafety   bool // `unchecked safety`: nil/bounds/type-assertion/... obligations are assumed, not proved (listed)
	NoPre      bool // `unchecked pre`: preconditions of callees are assumed, not proved (listed)
	Notes      []string
}

type AtClause struct {
	Anchor string // "before call NAME#N" | "after call NAME#N"
	Kind   string // assert | assume
	C      Clause
}

type ContractSet struct {
	Funcs  map[string]*Contract
	Specs  map[string]*SpecFunc
	SpecAmbig map[string]string // macro names defined differently in several files
	Lemmas []*Lemma
	Files  []string
	UFs    map[string]*UF
}

func NewContractSet() *ContractSet {
	return &ContractSet{Funcs: map[string]*Contract{}, Specs: map[string]*SpecFunc{}, UFs: map[string]*UF{}}
}

// LoadContractFile parses one file. pkgName qualifies unqualified function keys.
func (cs *ContractSet) LoadContractFile(path, pkgName string, trusted bool) error {
	data, err := os.ReadFile(path)
	if err != nil {
		return err
	}
	cs.Files = append(cs.Files, path)
	curFileSpecs = map[string]string{}
	defer func() { curFileSpecs = nil }()
	for _, raw := range strings.Split(string(data), "\n") {
		line := strings.TrimSpace(raw)
		if strings.HasPrefix(line, "//@") {
			body := strings.TrimSpace(line[3:])
			if strings.HasPrefix(body, "spec ") {
				if op := strings.Index(body, "("); op > 5 {
					nm := strings.TrimSpace(body[5:op])
					curFileSpecs[nm] = nm + "@" + filepath.Base(path)
				}
			}
		}
	}
	var cur *Contract
	var curLemma *Lemma
	lines := strings.Split(string(data), "\n")
	for ln, raw := range lines {
		line := strings.TrimSpace(raw)
		if !strings.HasPrefix(line, "//@") {
			continue
		}
		body := strings.TrimSpace(line[3:])
		if body == "" || strings.HasPrefix(body, "#") {
			continue
		}
		fail := func(e error) error { return fmt.Errorf("%s:%d: %v", path, ln+1, e) }
		word, rest := splitWord(body)
		mk := func(src string) (Clause, error) {
			tag := ""
			// optional "tag:" prefix: identifier followed by ':' (but not part of a quantifier)
			if i := strings.Index(src, ":"); i > 0 {
				cand := strings.TrimSpace(src[:i])
				if isTagName(cand) {
					tag = cand
					src = strings.TrimSpace(src[i+1:])
				}
			}
			e, err := ParseExpr(src)
			if err != nil {
				return Clause{}, err
			}
			return Clause{Tag: tag, Src: src, E: e, File: filepath.Base(path), Line: ln + 1}, nil
		}
		switch word {
		case "func", "interface", "trusted":
			curLemma = nil
			isTrusted := trusted
			isIface := word == "interface"
			if word == "trusted" {
				isTrusted = true
				w2, r2 := splitWord(rest)
				if w2 == "func" || w2 == "interface" {
					isIface = w2 == "interface"
					rest = r2
				}
			}
			key := strings.TrimSpace(rest)
			if !strings.Contains(strings.TrimLeft(key, "(*"), ".") || strings.HasPrefix(key, "(") {
				key = pkgName + "." + key
			} else if !strings.Contains(key, "/") {
				// "Type.Method" or "pkg.Func": decide by case of first word later; keep as is if it names a package
				first := key[:strings.Index(key, ".")]
				if first == "" || (first[0] >= 'A' && first[0] <= 'Z') || (isIface && strings.Count(key, ".") == 1) {
					key = pkgName + "." + key
				}
			}
			if _, dup := cs.Funcs[key]; dup {
				return fail(fmt.Errorf("duplicate contract for %s", key))
			}
			cur = &Contract{Key: key, Loops: map[int]*LoopSpec{}, Trusted: isTrusted, Interface: isIface, File: path, Line: ln + 1, PkgName: pkgName}
			cs.Funcs[key] = cur
		case "uf":
			// uf name(Int, Int) Int   -- uninterpreted function over Int/Bool
			curLemma = nil
			cur = nil
			op := strings.Index(rest, "(")
			cp := strings.Index(rest, ")")
			if op < 0 || cp < op {
				return fail(fmt.Errorf("bad uf declaration"))
			}
			u := &UF{Name: strings.TrimSpace(rest[:op]), Ret: strings.TrimSpace(rest[cp+1:])}
			for _, a := range strings.Split(rest[op+1:cp], ",") {
				if a = strings.TrimSpace(a); a != "" {
					u.Args = append(u.Args, a)
				}
			}
			if u.Ret == "" {
				u.Ret = "Int"
			}
			cs.UFs[u.Name] = u
		case "spec":
			// spec name(a, b) = expr
			curLemma = nil
			cur = nil
			eq := strings.Index(rest, "=")
			op := strings.Index(rest, "(")
			cp := strings.Index(rest, ")")
			if eq < 0 || op < 0 || cp < 0 || cp > eq {
				return fail(fmt.Errorf("bad spec definition"))
			}
			name := strings.TrimSpace(rest[:op])
			var params []string
			for _, p := range strings.Split(rest[op+1:cp], ",") {
				p = strings.TrimSpace(p)
				if p != "" {
					params = append(params, strings.Fields(p)[0])
				}
			}
			src := strings.TrimSpace(rest[eq+1:])
			e, err := ParseExpr(src)
			if err != nil {
				return fail(err)
			}
			sf := &SpecFunc{Name: name, Params: params, Body: e, Src: src}
			cs.Specs[name+"@"+filepath.Base(path)] = sf
			if prev, dup := cs.Specs[name]; dup {
				if canonSpec(prev.Src, prev.Params) != canonSpec(src, params) {
					if cs.SpecAmbig == nil {
						cs.SpecAmbig = map[string]string{}
					}
					cs.SpecAmbig[name] = "defined differently in several contract files (one of them " + filepath.Base(path) + ")"
				}
			} else {
				cs.Specs[name] = sf
			}
		case "lemma":
			cur = nil
			op := strings.Index(rest, "(")
			cp := strings.LastIndex(rest, ")")
			if op < 0 || cp < 0 {
				return fail(fmt.Errorf("bad lemma header"))
			}
			name := strings.TrimSpace(rest[:op])
			var params []string
			for _, p := range strings.Split(rest[op+1:cp], ",") {
				p = strings.TrimSpace(p)
				if p != "" {
					params = append(params, p)
				}
			}
			curLemma = &Lemma{Name: name, Params: params, File: path, Line: ln + 1}
			cs.Lemmas = append(cs.Lemmas, curLemma)
		default:
			if curLemma != nil {
				switch word {
				case "requires", "ensures":
					c, err := mk(rest)
					if err != nil {
						return fail(err)
					}
					if word == "requires" {
						curLemma.Requires = append(curLemma.Requires, c)
					} else {
						curLemma.Ensures = append(curLemma.Ensures, c)
					}
				case "property":
					curLemma.Props = append(curLemma.Props, strings.Fields(rest)...)
				default:
					return fail(fmt.Errorf("unknown lemma clause %q", word))
				}
				continue
			}
			if cur == nil {
				return fail(fmt.Errorf("clause %q outside a func block", word))
			}
			switch word {
			case "property":
				cur.Props = append(cur.Props, strings.Fields(rest)...)
			case "requires":
				c, err := mk(rest)
				if err != nil {
					return fail(err)
				}
				cur.Requires = append(cur.Requires, c)
			case "ensures":
				c, err := mk(rest)
				if err != nil {
					return fail(err)
				}
				cur.Ensures = append(cur.Ensures, c)
			case "panics":
				w2, r2 := splitWord(rest)
				if w2 != "when" {
					return fail(fmt.Errorf("expected 'panics when <expr>'"))
				}
				c, err := mk(r2)
				if err != nil {
					return fail(err)
				}
				cur.PanicsWhen = append(cur.PanicsWhen, c)
			case "let":
				eq := strings.Index(rest, "=")
				if eq < 0 {
					return fail(fmt.Errorf("bad let"))
				}
				e, err := ParseExpr(strings.TrimSpace(rest[eq+1:]))
				if err != nil {
					return fail(err)
				}
				cur.Lets = append(cur.Lets, struct {
					Name string
					E    Expr
				}{strings.TrimSpace(rest[:eq]), e})
			case "modifies":
				cur.HasMod = true
				if strings.TrimSpace(rest) == "nothing" {
					continue
				}
				ml, err := parseModList(rest)
				if err != nil {
					return fail(err)
				}
				cur.Modifies = append(cur.Modifies, ml...)
			case "loop":
				nS, r2 := splitWord(rest)
				nS = strings.TrimSuffix(nS, ":")
				n, err := strconv.Atoi(nS)
				if err != nil {
					return fail(fmt.Errorf("bad loop ordinal %q", nS))
				}
				ls := cur.Loops[n]
				if ls == nil {
					ls = &LoopSpec{}
					cur.Loops[n] = ls
				}
				w3, r3 := splitWord(r2)
				switch w3 {
				case "invariant":
					c, err := mk(r3)
					if err != nil {
						return fail(err)
					}
					ls.Invariants = append(ls.Invariants, c)
				case "entry":
					c, err := mk(r3)
					if err != nil {
						return fail(err)
					}
					ls.Entry = append(ls.Entry, c)
				case "modifies":
					ml, err := parseModList(r3)
					if err != nil {
						return fail(err)
					}
					ls.Modifies = append(ls.Modifies, ml...)
				case "decreases":
					c, err := mk(r3)
					if err != nil {
						return fail(err)
					}
					ls.Decreases = &c
				default:
					return fail(fmt.Errorf("unknown loop clause %q", w3))
				}
			case "at":
				// at before call NAME#N: assert EXPR
				i := strings.Index(rest, ":")
				if i < 0 {
					return fail(fmt.Errorf("bad at clause"))
				}
				anchor := strings.TrimSpace(rest[:i])
				k, r3 := splitWord(strings.TrimSpace(rest[i+1:]))
				if k != "assert" && k != "assume" {
					return fail(fmt.Errorf("at: expected assert/assume"))
				}
				c, err := mk(r3)
				if err != nil {
					return fail(err)
				}
				cur.Asserts = append(cur.Asserts, AtClause{Anchor: anchor, Kind: k, C: c})
			case "safe":
				cur.Safe = true
			case "pure":
				cur.Pure = true
				cur.HasMod = true
			case "check":
				for _, w := range strings.Fields(rest) {
					switch w {
					case "overflow":
						cur.Overflow = true
					case "notrunc":
						cur.NoTrunc = true
					default:
						return fail(fmt.Errorf("unknown check %q", w))
					}
				}
			case "track":
				if strings.TrimSpace(rest) != "locks" {
					return fail(fmt.Errorf("track locks"))
				}
				cur.TrackLocks = true
			case "unchecked":
				// thin contracts on very large functions: only the anchors and postconditions are proved
				for _, w := range strings.Fields(rest) {
					switch w {
					case "safety":
						cur.NoSafety = true
					case "pre":
						cur.NoPre = true
					default:
						return fail(fmt.Errorf("unknown unchecked %q", w))
					}
				}
			case "opaque":
				cur.Opaque = append(cur.Opaque, strings.Fields(rest)...)
			case "assume-pure":
				// calls with these display names (function values, uncontracted callees) are assumed
				// not to modify any heap location visible to this function (listed assumption)
				cur.AssumePure = append(cur.AssumePure, strings.Fields(rest)...)
			case "use":
				// use NAME: tag tag ...  -- at calls of NAME assume only the named postconditions
				// of its contract (assuming fewer facts is always sound; keeps queries small)
				i := strings.Index(rest, ":")
				if i < 0 {
					return fail(fmt.Errorf("use NAME: tag ..."))
				}
				if cur.Use == nil {
					cur.Use = map[string][]string{}
				}
				nm := strings.TrimSpace(rest[:i])
				cur.Use[nm] = append(cur.Use[nm], strings.Fields(rest[i+1:])...)
			case "note":
				cur.Notes = append(cur.Notes, rest)
			default:
				return fail(fmt.Errorf("unknown clause %q", word))
			}
		}
	}
	return nil
}

func isTagName(s string) bool {
	if s == "" {
		return false
	}
	for i := 0; i < len(s); i++ {
		c := s[i]
		if !(isAlnum(c) || c == '_' || c == '-') {
			return false
		}
	}
	if s == "forall" || s == "exists" {
		return false
	}
	return isAlpha(s[0])
}

func splitWord(s string) (string, string) {
	s = strings.TrimSpace(s)
	i := strings.IndexAny(s, " \t")
	if i < 0 {
		return s, ""
	}
	return s[:i], strings.TrimSpace(s[i+1:])
}

func parseModList(s string) ([]ModLoc, error) {
	var out []ModLoc
	depth := 0
	start := 0
	parts := []string{}
	for i := 0; i < len(s); i++ {
		switch s[i] {
		case '(', '[':
			depth++
		case ')', ']':
			depth--
		case ',':
			if depth == 0 {
				parts = append(parts, s[start:i])
				start = i + 1
			}
		}
	}
	parts = append(parts, s[start:])
	for _, p := range parts {
		p = strings.TrimSpace(p)
		if p == "" {
			continue
		}
		// region syntax b[lo..hi]
		if i := strings.LastIndex(p, "["); i > 0 && strings.HasSuffix(p, "]") && strings.Contains(p[i:], "..") {
			inner := p[i+1 : len(p)-1]
			j := strings.Index(inner, "..")
			base, err := ParseExpr(p[:i])
			if err != nil {
				return nil, err
			}
			lo, err := ParseExpr(inner[:j])
			if err != nil {
				return nil, err
			}
			hi, err := ParseExpr(inner[j+2:])
			if err != nil {
				return nil, err
			}
			out = append(out, ModLoc{Src: p, E: &ECall{"region", []Expr{base, lo, hi}}})
			continue
		}
		e, err := ParseExpr(p)
		if err != nil {
			return nil, err
		}
		out = append(out, ModLoc{Src: p, E: e})
	}
	return out, nil
}

func (cs *ContractSet) SortedKeys() []string {
	var ks []string
	for k := range cs.Funcs {
		ks = append(ks, k)
	}
	sort.Strings(ks)
	return ks
}

// Spec macros are file-scoped when a file defines them itself: while a contract file is loaded,
// calls of a macro defined in that same file are bound to that file's definition (mangled name
// NAME@file). A file that uses a macro it does not define gets the (unique) definition of another
// file; if several files define the name differently such a use is an error (SpecAmbig).
var curFileSpecs map[string]string

func ParseExpr(src string) (Expr, error) {
	e, err := parseExpr0(src)
	if err == nil && len(curFileSpecs) > 0 {
		renameSpecCalls(e, curFileSpecs)
	}
	return e, err
}

func renameSpecCalls(x Expr, m map[string]string) {
	switch n := x.(type) {
	case *ECall:
		if nn, ok := m[n.Fn]; ok {
			n.Fn = nn
		}
		for _, a := range n.Args {
			renameSpecCalls(a, m)
		}
	case *EUn:
		renameSpecCalls(n.X, m)
	case *EBin:
		renameSpecCalls(n.X, m)
		renameSpecCalls(n.Y, m)
	case *ESel:
		renameSpecCalls(n.X, m)
	case *EIndex:
		renameSpecCalls(n.X, m)
		renameSpecCalls(n.I, m)
	case *ESlice:
		renameSpecCalls(n.X, m)
		if n.Lo != nil {
			renameSpecCalls(n.Lo, m)
		}
		if n.Hi != nil {
			renameSpecCalls(n.Hi, m)
		}
	case *EQuant:
		if n.Lo != nil {
			renameSpecCalls(n.Lo, m)
		}
		if n.Hi != nil {
			renameSpecCalls(n.Hi, m)
		}
		renameSpecCalls(n.Body, m)
	case *ETypeAssert:
		renameSpecCalls(n.X, m)
	}
}

// canonSpec: the macro body with the parameter names replaced by positions (alpha-equivalence).
func canonSpec(src string, params []string) string {
	toks, err := lex(src)
	if err != nil {
		return src
	}
	pos := map[string]int{}
	for i, p := range params {
		pos[p] = i
	}
	var b strings.Builder
	for _, t := range toks {
		txt := t.k + ":" + t.s
		if i, ok := pos[t.s]; ok && t.k == "id" {
			txt = fmt.Sprintf("$%d", i)
		}
		b.WriteString(txt)
		b.WriteByte(' ')
	}
	return b.String()
}
