package main

// Literal tables: a map created by MakeMap and filled by MapUpdate instructions with constant
// keys in the same basic block is mirrored concretely in the generator, so that
//   * `forall v in keys(m): P` expands to one ground instance per entry, and
//   * `m[k]` / `has(m, k)` with a constant k are evaluated by the generator
// (DESIGN.md §6 C32). The mirror is dropped as soon as anything could invalidate it: an update
// from another block, an update through an unknown map value, a havoc of the map components.

import (
	"fmt"
	"go/types"

	"golang.org/x/tools/go/ssa"
)

type knownKey struct {
	v     Val
	label string
}

type mapKeyInfo struct {
	keys    []knownKey
	vals    map[string]Val
	unknown bool
	block   *ssa.BasicBlock // block of the MakeMap
	typ     string
}

func (vc *VC) keyLabel(k Val) (string, bool) {
	switch {
	case k.K == KInt && k.C != nil:
		return k.C.String(), true
	case k.K == KStr && vc.strLitRev[k.S] != nil:
		return fmt.Sprintf("%q", *vc.strLitRev[k.S]), true
	}
	return "", false
}

func (vc *VC) newMapMirror(mapID Term, t types.Type) {
	if vc.mapKeys == nil {
		vc.mapKeys = map[Term]*mapKeyInfo{}
	}
	vc.mapKeys[mapID] = &mapKeyInfo{vals: map[string]Val{}, block: vc.curBlock, typ: typeKey(t)}
}

// recordMapUpdate mirrors m[k] = v; an update the mirror cannot follow invalidates mirrors.
func (vc *VC) recordMapUpdate(mapID Term, t types.Type, k Val, v Val) {
	mi := vc.mapKeys[mapID]
	if mi == nil {
		// update through a map value of unknown identity: it may alias any mirrored map of this type
		vc.clobberMaps(typeKey(t))
		return
	}
	label, ok := vc.keyLabel(k)
	if !ok || vc.curBlock != mi.block {
		mi.unknown = true
		return
	}
	if _, seen := mi.vals[label]; !seen {
		mi.keys = append(mi.keys, knownKey{v: k, label: label})
	}
	mi.vals[label] = v
}

func (vc *VC) clobberMaps(typ string) {
	for _, mi := range vc.mapKeys {
		if typ == "" || mi.typ == typ {
			mi.unknown = true
		}
	}
}

// mirror returns the concrete mirror of map value m if it is valid at the current block.
func (vc *VC) mirror(m Val) *mapKeyInfo {
	mi := vc.mapKeys[m.S]
	if mi == nil || mi.unknown {
		return nil
	}
	if vc.curBlock != nil && mi.block != nil && !vc.feasiblyDominates(mi.block, vc.curBlock) {
		return nil
	}
	return mi
}

// feasiblyDominates: a dominates b once statically infeasible edges are ignored.
func (vc *VC) feasiblyDominates(a, b *ssa.BasicBlock) bool {
	for steps := 0; steps < 10000; steps++ {
		if a == b || a.Dominates(b) {
			return true
		}
		var only *ssa.BasicBlock
		n := 0
		for _, p := range b.Preds {
			if vc.infeasible[edge{p.Index, b.Index}] {
				continue
			}
			n++
			only = p
		}
		if n != 1 {
			return false
		}
		b = only
	}
	return false
}

// knownKeys resolves keys(m) to the statically known key set of the map m denotes.
func (e *Env) knownKeys(kc *ECall) []knownKey {
	if len(kc.Args) != 1 {
		sfail("keys(m)")
	}
	m := e.eval(kc.Args[0])
	if m.K != KMap {
		sfail("keys() of a non-map")
	}
	mi := e.vc.mirror(m)
	if mi == nil {
		sfail("keys(): the contents of this map are not statically known here (it must be built by a map literal with constant keys in this function)")
	}
	return mi.keys
}

// concreteLookup evaluates m[k] / has(m,k) on a mirrored map with a constant key.
func (vc *VC) concreteLookup(m Val, k Val) (v Val, present bool, ok bool) {
	mi := vc.mirror(m)
	if mi == nil {
		return Val{}, false, false
	}
	label, isConst := vc.keyLabel(k)
	if !isConst {
		return Val{}, false, false
	}
	if x, found := mi.vals[label]; found {
		return x, true, true
	}
	return Val{}, false, true
}

// splitKeysQuantifier: an `ensures` of the form `forall v in keys(m): P` becomes one obligation per key.
func (vc *VC) splitKeysQuantifier(env *Env, x Expr) (labels []string, terms []Term, ok bool) {
	q, isQ := x.(*EQuant)
	if !isQ || !q.Forall || q.Hi != nil {
		return nil, nil, false
	}
	kc, isK := q.Lo.(*ECall)
	if !isK || kc.Fn != "keys" {
		return nil, nil, false
	}
	for _, kv := range env.knownKeys(kc) {
		b := env.with(q.Var, kv.v).eval(q.Body)
		if b.K != KBool {
			sfail("quantifier body is not boolean")
		}
		labels = append(labels, kv.label)
		terms = append(terms, b.S)
	}
	return labels, terms, true
}
