package main

// Literal tables: maps built by MakeMap + MapUpdate with constant keys are tracked so that
// `forall v in keys(m): P` expands to one ground instance per entry (DESIGN.md §6 C32).

import (
	"fmt"
	"go/types"
)

type knownKey struct {
	v     Val
	label string
}

type mapKeyInfo struct {
	keys    []knownKey
	seen    map[string]bool
	unknown bool
}

func (vc *VC) recordMapKey(mapID Term, k Val) {
	if vc.mapKeys == nil {
		vc.mapKeys = map[Term]*mapKeyInfo{}
	}
	mi := vc.mapKeys[mapID]
	if mi == nil {
		mi = &mapKeyInfo{seen: map[string]bool{}}
		vc.mapKeys[mapID] = mi
	}
	label := ""
	switch {
	case k.K == KInt && k.C != nil:
		label = k.C.String()
	case k.K == KStr && vc.strLitRev[k.S] != nil:
		label = fmt.Sprintf("%q", *vc.strLitRev[k.S])
	default:
		mi.unknown = true
		return
	}
	if mi.seen[label] {
		return
	}
	mi.seen[label] = true
	mi.keys = append(mi.keys, knownKey{v: k, label: label})
}

// knownKeys resolves keys(m) to the statically known key set of the map m denotes.
func (e *Env) knownKeys(kc *ECall) []knownKey {
	if len(kc.Args) != 1 {
		sfail("keys(m)")
	}
	m := e.eval(kc.Args[0])
	if m.K != KMap {
		sfail("keys() of a non-map")
	}
	mi := e.vc.mapKeys[m.S]
	if mi == nil || mi.unknown {
		sfail("keys(): the key set of this map is not statically known (it must be built by a map literal with constant keys in this function)")
	}
	return mi.keys
}

// splitKeysQuantifier: an `ensures` of the form `forall v in keys(m): P` becomes one obligation per key.
func (vc *VC) splitKeysQuantifier(env *Env, x Expr) (labels []string, terms []Term, ok bool) {
	q, isQ := x.(*EQuant)
	if !isQ || !q.Forall || q.Hi != nil {
		return nil, nil, false
	}
	kc, isK := q.Lo.(*ECall)
	if !isK || kc.Fn != "keys" {
		return nil, nil, false
	}
	for _, kv := range env.knownKeys(kc) {
		b := env.with(q.Var, kv.v).eval(q.Body)
		if b.K != KBool {
			sfail("quantifier body is not boolean")
		}
		labels = append(labels, kv.label)
		terms = append(terms, b.S)
	}
	return labels, terms, true
}

var _ = types.Typ
