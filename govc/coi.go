package main

// Cone of influence: an obligation's script contains only the declarations, definitions and
// axioms that its guard and condition transitively mention. Dropping unrelated definitional
// axioms and unused definitions never changes the answer of an unsat query into sat: every
// dropped assertion is either a definition of a symbol that no longer occurs or an axiom whose
// symbols are disjoint from the rest (so a model of the rest extends to it), see DESIGN.md.

import (
	"strings"
	"sync"
)

type declInfo struct {
	line string
	name string
	deps []string
}

type coiIndex struct {
	decls   []declInfo
	byName  map[string]int
	axioms  []declInfo // name unused; deps = symbols mentioned
	prelude []int      // decl indices always included (sorts)
}

var coiCache sync.Map // *FuncResult -> *coiIndex

func symbolsOf(s string) []string {
	var out []string
	seen := map[string]bool{}
	i := 0
	for i < len(s) {
		c := s[i]
		if c == '(' || c == ')' || c == ' ' || c == '\n' || c == '\t' {
			i++
			continue
		}
		j := i
		for j < len(s) && s[j] != '(' && s[j] != ')' && s[j] != ' ' && s[j] != '\n' && s[j] != '\t' {
			j++
		}
		tok := s[i:j]
		i = j
		if tok == "" || (tok[0] >= '0' && tok[0] <= '9') || tok[0] == ':' {
			continue
		}
		if !seen[tok] {
			seen[tok] = true
			out = append(out, tok)
		}
	}
	return out
}

func buildCOI(fr *FuncResult) *coiIndex {
	if v, ok := coiCache.Load(fr); ok {
		return v.(*coiIndex)
	}
	ci := &coiIndex{byName: map[string]int{}}
	for i, d := range fr.Decls {
		di := declInfo{line: d}
		// (declare-const NAME ..) (declare-fun NAME ..) (define-fun NAME ..) (declare-sort NAME n)
		f := strings.Fields(strings.TrimPrefix(d, "("))
		if len(f) >= 2 {
			di.name = f[1]
		}
		rest := d
		if k := strings.Index(d, di.name); k >= 0 {
			rest = d[k+len(di.name):]
		}
		di.deps = symbolsOf(rest)
		if strings.HasPrefix(d, "(declare-sort") {
			ci.prelude = append(ci.prelude, i)
		}
		ci.decls = append(ci.decls, di)
		if di.name != "" {
			ci.byName[di.name] = i
		}
	}
	for _, a := range fr.Axioms {
		ci.axioms = append(ci.axioms, declInfo{line: a, deps: symbolsOf(a)})
	}
	coiCache.Store(fr, ci)
	return ci
}

// sliceScript returns the decl and axiom lines needed for terms mentioning `roots`, restricted to
// the first nd declarations and na axioms.
func (ci *coiIndex) sliceScript(roots []string, nd, na int) (decls []string, axioms []string) {
	inDecl := make([]bool, len(ci.decls))
	inAx := make([]bool, len(ci.axioms))
	cone := map[string]bool{}
	var work []string
	add := func(sym string) {
		if cone[sym] {
			return
		}
		cone[sym] = true
		work = append(work, sym)
	}
	for _, r := range roots {
		add(r)
	}
	for _, p := range ci.prelude {
		if p < nd {
			inDecl[p] = true
		}
	}
	// index: symbol -> axioms mentioning it
	axBySym := map[string][]int{}
	isConst := func(s string) bool {
		di, ok := ci.byName[s]
		if !ok {
			return false
		}
		l := ci.decls[di].line
		return strings.HasPrefix(l, "(declare-const") || strings.HasPrefix(l, "(define-fun "+s+" ()")
	}
	for i := 0; i < na && i < len(ci.axioms); i++ {
		ground := !strings.Contains(ci.axioms[i].line, "(forall ")
		hasConst := false
		if ground {
			for _, s := range ci.axioms[i].deps {
				if isConst(s) {
					hasConst = true
				}
			}
		}
		for _, s := range ci.axioms[i].deps {
			if _, isDecl := ci.byName[s]; isDecl {
				// ground facts about particular constants (string literals, ...) are relevant only
				// when one of those constants is; quantified axioms when any of their symbols is
				if ground && hasConst && !isConst(s) {
					continue
				}
				axBySym[s] = append(axBySym[s], i)
			}
		}
	}
	for len(work) > 0 {
		sym := work[len(work)-1]
		work = work[:len(work)-1]
		if di, ok := ci.byName[sym]; ok && di < nd && !inDecl[di] {
			inDecl[di] = true
			for _, d := range ci.decls[di].deps {
				add(d)
			}
		}
		for _, ai := range axBySym[sym] {
			if !inAx[ai] {
				inAx[ai] = true
				for _, d := range ci.axioms[ai].deps {
					add(d)
				}
			}
		}
	}
	for i := 0; i < nd && i < len(ci.decls); i++ {
		if inDecl[i] {
			decls = append(decls, ci.decls[i].line)
		}
	}
	for i := 0; i < na && i < len(ci.axioms); i++ {
		if inAx[i] {
			axioms = append(axioms, ci.axioms[i].line)
		}
	}
	return
}
