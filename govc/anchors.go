package main

// Call-site anchors: `//@ at before call NAME#N: assert EXPR` (and `after`, `assume`).
// NAME is the callee's short name (function or method name, or the name of the struct field
// holding a function value); N counts the calls of that NAME in SSA order. Inside EXPR,
// arg0, arg1, ... are the call's arguments (receiver first) and res / res0, res1 its results.

import (
	"fmt"
	"strings"

	"golang.org/x/tools/go/ssa"
)

func callDisplayName(c *ssa.CallCommon) string {
	if c.IsInvoke() {
		return c.Method.Name()
	}
	if fn := c.StaticCallee(); fn != nil {
		return baseName(fn)
	}
	if b, ok := c.Value.(*ssa.Builtin); ok {
		return b.Name()
	}
	// function value loaded from a struct field: use the field name
	v := c.Value
	if u, ok := v.(*ssa.UnOp); ok {
		if fa, ok := u.X.(*ssa.FieldAddr); ok {
			if s := structOf(derefType(fa.X.Type())); s != nil {
				return s.Field(fa.Field).Name()
			}
		}
	}
	if f, ok := v.(*ssa.Field); ok {
		if s := structOf(f.X.Type()); s != nil {
			return s.Field(f.Field).Name()
		}
	}
	return v.Name()
}

// callOrdinals numbers the calls of the function statically: per display name, in block order.
func (vc *VC) callOrdinals() {
	vc.callOrd = map[ssa.Instruction]int{}
	vc.callOrdQ = map[ssa.Instruction]string{}
	vc.callByName = map[string]ssa.Instruction{}
	count := map[string]int{}
	for _, b := range vc.fn.Blocks {
		for _, in := range b.Instrs {
			if c, ok := in.(*ssa.Call); ok {
				n := callDisplayName(c.Common())
				vc.callOrd[in] = count[n]
				vc.callByName[fmt.Sprintf("%s#%d", n, count[n])] = in
				count[n]++
				// package-qualified form for static callees: hmac.New#0
				if fn := c.Common().StaticCallee(); fn != nil {
					if p := fnPackage(fn); p != nil {
						q := p.Name() + "." + n
						vc.callOrdQ[in] = fmt.Sprintf("%s#%d", q, count[q])
						vc.callByName[vc.callOrdQ[in]] = in
						count[q]++
					}
				}
			}
		}
	}
}

// callResult returns the value of the n-th call named `name` (unconstrained if that call has
// not been executed on the path considered).
func (vc *VC) callResult(name string, n int) (Val, bool) {
	in, ok := vc.callByName[fmt.Sprintf("%s#%d", name, n)]
	if !ok {
		return Val{}, false
	}
	c := in.(*ssa.Call)
	if v, ok := vc.vals[c]; ok {
		return v, true
	}
	v := vc.freshValNoAssume(c.Type(), "notcalled."+name)
	vc.vals[c] = v
	return v, true
}

func (vc *VC) anchorIndex(in ssa.Instruction) int {
	b := in.Block()
	for i, x := range b.Instrs {
		if x == in {
			return i
		}
	}
	return 0
}

// runAnchors evaluates the at-clauses attached to this call site.
func (vc *VC) runAnchors(st *State, when string, site ssa.Instruction, name string, ord int, args []Val, res *Val) {
	if vc.contract == nil || len(vc.contract.Asserts) == 0 {
		return
	}
	want := fmt.Sprintf("%s call %s#%d", when, name, ord)
	wantQ := ""
	if q, ok := vc.callOrdQ[site]; ok {
		wantQ = fmt.Sprintf("%s call %s", when, q)
	}
	wantAny := fmt.Sprintf("%s call %s#*", when, name) // every call of that name
	for i, ac := range vc.contract.Asserts {
		if a := strings.Join(strings.Fields(ac.Anchor), " "); a != want && a != wantQ && a != wantAny {
			continue
		}
		vc.anchorsHit[i] = true
		env := vc.baseEnv(st)
		blk := site.Block()
		idx := vc.anchorIndex(site)
		env.local = func(n string) (Val, bool) {
			// loop-carried variables of the enclosing loops (by source name; $rangeindex, $k)
			for _, li := range vc.cfg.loops {
				if !li.body[blk] {
					continue
				}
				for _, in := range li.header.Instrs {
					ph, ok := in.(*ssa.Phi)
					if !ok {
						break
					}
					if v, known := vc.vals[ph]; known {
						if ph.Comment == n || "$"+ph.Comment == n {
							return v, true
						}
						if n == "$k" && ph.Comment == "rangeindex" {
							return mathInt(app("+", v.S, "1")), true
						}
					}
				}
			}
			return vc.localByNameAt(n, blk, idx, st)
		}
		for k, a := range args {
			env.vars[fmt.Sprintf("arg%d", k)] = a
		}
		if res != nil {
			if res.K == KTuple {
				for k, r := range res.Fs {
					env.vars[fmt.Sprintf("res%d", k)] = r
				}
			} else if res.K != KUnit {
				env.vars["res"] = *res
				env.vars["res0"] = *res
			}
		}
		t, err := env.EvalBool(ac.C.E)
		if err != nil {
			sfail("at %s: %q: %v", ac.Anchor, ac.C.Src, err)
		}
		tag := ac.C.Tag
		if tag == "" {
			tag = fmt.Sprint(i)
		}
		if ac.Kind == "assume" {
			vc.assumptions[fmt.Sprintf("assume at %s: %s", ac.Anchor, ac.C.Src)] = true
			vc.assume(st, t)
		} else {
			vc.oblige(st, "at", fmt.Sprintf("%s.%s#%d.%s", when, name, ord, tag), t, ac.C.Src)
		}
	}
}
