package main

// Thorough tier: modular verification trusts the contract of every contracted callee. The quick
// tier verifies the functions tagged with the property; the thorough tier also verifies every
// non-trusted contracted function they (transitively) call or create as a closure, so that a
// change inside a callee that breaks the callee's own contract is reported by this property's
// check even when the callee carries a different property tag.

import (
	"sort"

	"golang.org/x/tools/go/ssa"
)

func contractClosure(g *Global, cs []*Contract) []*Contract {
	have := map[string]bool{}
	for _, c := range cs {
		have[c.Key] = true
	}
	var extra []*Contract
	work := append([]*Contract{}, cs...)
	for len(work) > 0 {
		c := work[0]
		work = work[1:]
		fn := g.funcs[c.Key]
		if fn == nil {
			continue
		}
		visit := func(callee *ssa.Function) {
			if callee == nil {
				return
			}
			k := funcKey(callee)
			cc, ok := g.contracts.Funcs[k]
			if !ok || cc.Trusted || cc.Interface || have[k] {
				return
			}
			if _, exists := g.funcs[k]; !exists {
				return
			}
			for _, o := range c.Opaque {
				if o == k {
					return // the caller does not rely on this contract
				}
			}
			have[k] = true
			extra = append(extra, cc)
			work = append(work, cc)
		}
		for _, b := range fn.Blocks {
			for _, in := range b.Instrs {
				switch x := in.(type) {
				case ssa.CallInstruction:
					visit(x.Common().StaticCallee())
				case *ssa.MakeClosure:
					if f, ok := x.Fn.(*ssa.Function); ok {
						visit(f)
					}
				}
			}
		}
	}
	sort.Slice(extra, func(i, j int) bool { return extra[i].Key < extra[j].Key })
	return extra
}
