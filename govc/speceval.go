package main

// Evaluation of contract expressions to symbolic values (pure: no definitions are
// hoisted and nothing is assumed, so the result may sit under a quantifier).

import (
	"fmt"
	"go/constant"
	"go/types"
	"math/big"
	"strings"

	"golang.org/x/tools/go/ssa"
)

type Env struct {
	vc    *VC
	st    *State
	old   *State
	vars  map[string]Val
	pkg   *types.Package
	local func(name string) (Val, bool)
	depth int
}

func (e *Env) with(name string, v Val) *Env {
	n := *e
	n.vars = make(map[string]Val, len(e.vars)+1)
	for k, x := range e.vars {
		n.vars[k] = x
	}
	n.vars[name] = v
	return &n
}

func (e *Env) inState(st *State) *Env {
	n := *e
	n.st = st
	return &n
}

type specError struct{ msg string }

func (s specError) Error() string { return s.msg }

func sfail(format string, a ...interface{}) {
	panic(specError{fmt.Sprintf(format, a...)})
}

// EvalBool evaluates a clause to a Bool term; errors are returned.
func (e *Env) EvalBool(x Expr) (t Term, err error) {
	defer func() {
		if r := recover(); r != nil {
			if se, ok := r.(specError); ok {
				err = se
				return
			}
			panic(r)
		}
	}()
	v := e.eval(x)
	if v.K != KBool {
		sfail("expression is not boolean")
	}
	return v.S, nil
}

func (e *Env) EvalVal(x Expr) (v Val, err error) {
	defer func() {
		if r := recover(); r != nil {
			if se, ok := r.(specError); ok {
				err = se
				return
			}
			panic(r)
		}
	}()
	return e.eval(x), nil
}

func (e *Env) pureLoadLoc(l *Loc, t types.Type) Val {
	return valFromLeaves(t, func(lf Leaf) Term { return e.vc.readLeaf(e.st, l, lf) })
}

func (e *Env) pureLoadStruct(id Term, t types.Type) Val {
	s := structOf(t)
	v := Val{T: t, K: KStruct}
	for i := 0; i < s.NumFields(); i++ {
		ft := s.Field(i).Type()
		if kindOf(ft) == KStruct {
			v.Fs = append(v.Fs, e.pureLoadStruct(e.vc.subPtr(t, i, id), ft))
		} else if kindOf(ft) == KArray {
			v.Fs = append(v.Fs, e.vc.loadArray(e.st, e.vc.subPtr(t, i, id), ft))
		} else {
			v.Fs = append(v.Fs, e.pureLoadLoc(&Loc{Kind: LField, Base: id, ST: t, Field: i, T: ft}, ft))
		}
	}
	return v
}

func (e *Env) deref(p Val) Val {
	if p.K != KPtr {
		sfail("dereference of non-pointer")
	}
	pt := derefType(p.T)
	if pt == nil {
		sfail("dereference of untyped pointer")
	}
	if kindOf(pt) == KStruct {
		return e.pureLoadStruct(p.S, pt)
	}
	if kindOf(pt) == KArray {
		return e.vc.loadArray(e.st, p.S, pt)
	}
	l := p.Loc
	if l == nil {
		l = &Loc{Kind: LDeref, Base: p.S, T: pt}
	}
	return e.pureLoadLoc(l, pt)
}

func derefType2(t types.Type) types.Type {
	if t == nil {
		return types.Typ[types.Int]
	}
	if d := derefType(t); d != nil {
		return d
	}
	return t
}

// field selects field `name` of x (auto-dereferencing pointers). Struct-typed results
// reached through a pointer stay lazy (K=KStruct, S=object id, Fs=nil) until forced.
func (e *Env) field(x Val, name string) Val {
	t := x.T
	if x.K == KPtr {
		pt := derefType(x.T)
		if pt == nil {
			sfail("field %s of untyped pointer", name)
		}
		t = pt
	}
	if structOf(t) == nil || kindOf(t) != KStruct {
		sfail("field %s of non-struct type %s", name, t)
	}
	index := findFieldPath(t, name)
	if index == nil {
		sfail("no field %s in %s", name, t)
	}
	cur := x
	for _, fi := range index {
		var curT types.Type
		byRef := false
		switch {
		case cur.K == KPtr:
			curT = derefType(cur.T)
			byRef = true
		case cur.K == KStruct && cur.Fs == nil:
			curT = cur.T
			byRef = true
		case cur.K == KStruct:
			cur = cur.Fs[fi]
			continue
		default:
			sfail("bad field access .%s", name)
		}
		if byRef {
			if cur.S == "" {
				sfail("field of leaf pointer")
			}
			cs := structOf(curT)
			ft := cs.Field(fi).Type()
			if kindOf(ft) == KStruct {
				cur = Val{T: ft, K: KStruct, S: e.vc.subPtr(curT, fi, cur.S)}
			} else if kindOf(ft) == KArray {
				cur = e.vc.loadArray(e.st, e.vc.subPtr(curT, fi, cur.S), ft)
			} else {
				cur = e.pureLoadLoc(&Loc{Kind: LField, Base: cur.S, ST: curT, Field: fi, T: ft}, ft)
			}
		}
	}
	return cur
}

// force materialises a lazy struct value.
func (e *Env) force(v Val) Val {
	if v.K == KStruct && v.Fs == nil && v.S != "" {
		return e.pureLoadStruct(v.S, v.T)
	}
	return v
}

func findFieldPath(t types.Type, name string) []int {
	s := structOf(t)
	if s == nil {
		return nil
	}
	for i := 0; i < s.NumFields(); i++ {
		if s.Field(i).Name() == name {
			return []int{i}
		}
	}
	for i := 0; i < s.NumFields(); i++ {
		if s.Field(i).Embedded() {
			if p := findFieldPath(s.Field(i).Type(), name); p != nil {
				return append([]int{i}, p...)
			}
		}
	}
	return nil
}

func (e *Env) pkgFor(t types.Type) *types.Package {
	if p, ok := t.(*types.Pointer); ok {
		t = p.Elem()
	}
	if n, ok := t.(*types.Named); ok && n.Obj().Pkg() != nil {
		return n.Obj().Pkg()
	}
	return e.pkg
}

func (e *Env) index(x Val, i Val) Val {
	switch x.K {
	case KSlice:
		et := x.T.Underlying().(*types.Slice).Elem()
		idx := e.vc.ix(x.Sl[1], i.S)
		if kindOf(et) == KStruct {
			return e.pureLoadStruct(e.vc.elemPtr(et, x.Sl[0], idx), et)
		}
		return e.pureLoadLoc(&Loc{Kind: LElem, Base: x.Sl[0], Idx: idx, T: et}, et)
	case KArray:
		et := x.T.Underlying().(*types.Array).Elem()
		return Val{T: et, K: kindOf(et), S: sel(x.S, i.S)}
	case KStr:
		e.vc.ensureStr()
		return Val{T: types.Typ[types.Uint8], K: KInt, S: app("strat", x.S, i.S)}
	case KPtr:
		// pointer to array
		if at, ok := derefType2(x.T).Underlying().(*types.Array); ok {
			arr := e.deref(x)
			return Val{T: at.Elem(), K: kindOf(at.Elem()), S: sel(arr.S, i.S)}
		}
	case KMap:
		if v, present, ok := e.vc.concreteLookup(x, i); ok && e.st != e.old {
			if present {
				return v
			}
			_, vt, _, _ := e.vc.mapComps(x.T)
			return e.vc.zeroVal(vt)
		}
		return e.vc.mapLookupPure(e.st, x, i)
	}
	sfail("cannot index value of kind %d", x.K)
	return Val{}
}

func (e *Env) lookupType(name string) types.Type {
	ptr := 0
	for strings.HasPrefix(name, "*") {
		ptr++
		name = name[1:]
	}
	sl := 0
	for strings.HasPrefix(name, "[]") {
		sl++
		name = name[2:]
	}
	var t types.Type
	pkg := e.pkg
	if i := strings.Index(name, "."); i >= 0 {
		pn := name[:i]
		name = name[i+1:]
		pkg = e.vc.G.pkgByName(pn, e.pkg)
		if pkg == nil {
			sfail("unknown package %s", pn)
		}
	}
	if obj := pkg.Scope().Lookup(name); obj != nil {
		if tn, ok := obj.(*types.TypeName); ok {
			t = tn.Type()
		}
	}
	if t == nil {
		if obj := types.Universe.Lookup(name); obj != nil {
			if tn, ok := obj.(*types.TypeName); ok {
				t = tn.Type()
			}
		}
	}
	if t == nil {
		sfail("unknown type %s", name)
	}
	for ; sl > 0; sl-- {
		t = types.NewSlice(t)
	}
	for ; ptr > 0; ptr-- {
		t = types.NewPointer(t)
	}
	return t
}

func constToVal(vc *VC, t types.Type, c constant.Value) Val {
	switch c.Kind() {
	case constant.Bool:
		if constant.BoolVal(c) {
			return boolVal("true")
		}
		return boolVal("false")
	case constant.String:
		return Val{T: t, K: KStr, S: vc.strLit(constant.StringVal(c))}
	case constant.Int:
		bi, _ := new(big.Int).SetString(c.ExactString(), 10)
		return Val{T: t, K: KInt, S: bigNum(bi), C: bi}
	case constant.Float:
		f, _ := constant.Float64Val(c)
		if kindOf(t) == KInt {
			bi, _ := new(big.Int).SetString(constant.ToInt(c).ExactString(), 10)
			return Val{T: t, K: KInt, S: bigNum(bi), C: bi}
		}
		return Val{T: t, K: KFloat, S: fpLit(f)}
	}
	sfail("unsupported constant")
	return Val{}
}

func (e *Env) global(pkg *types.Package, name string) (Val, bool) {
	obj := pkg.Scope().Lookup(name)
	if obj == nil {
		return Val{}, false
	}
	switch o := obj.(type) {
	case *types.Const:
		return constToVal(e.vc, o.Type(), o.Val()), true
	case *types.Var:
		return e.vc.globalVal(e.st, o, true), true
	}
	return Val{}, false
}

func (e *Env) eval(x Expr) Val {
	vc := e.vc
	switch n := x.(type) {
	case *EInt:
		return Val{T: specInt, K: KInt, S: bigNum(n.V), C: n.V}
	case *EBool:
		if n.V {
			return boolVal("true")
		}
		return boolVal("false")
	case *EFloat:
		return Val{T: types.Typ[types.Float64], K: KFloat, S: fpLit(n.V)}
	case *EStr:
		return Val{T: types.Typ[types.String], K: KStr, S: vc.strLit(n.V)}
	case *ENil:
		return Val{T: types.Typ[types.UntypedNil], K: KPtr, S: "0"}
	case *EIdent:
		if v, ok := e.vars[n.Name]; ok {
			return v
		}
		if e.local != nil {
			if v, ok := e.local(n.Name); ok {
				return v
			}
		}
		if v, ok := e.global(e.pkg, n.Name); ok {
			return v
		}
		sfail("unknown identifier %s", n.Name)
	case *ESel:
		if id, ok := n.X.(*EIdent); ok {
			if _, shadow := e.vars[id.Name]; !shadow {
				if e.local != nil {
					if _, ok := e.local(id.Name); ok {
						goto notpkg
					}
				}
				if p := vc.G.pkgByName(id.Name, e.pkg); p != nil && e.pkg.Scope().Lookup(id.Name) == nil {
					if v, ok := e.global(p, n.Name); ok {
						return v
					}
					sfail("unknown %s.%s", id.Name, n.Name)
				}
			}
		}
	notpkg:
		xv := e.eval(n.X)
		return e.field(xv, n.Name)
	case *EIndex:
		return e.index(e.eval(n.X), e.eval(n.I))
	case *ESlice:
		xv := e.eval(n.X)
		lo := Term("0")
		if n.Lo != nil {
			lo = e.eval(n.Lo).S
		}
		switch xv.K {
		case KSlice:
			hi := xv.Sl[2]
			if n.Hi != nil {
				hi = e.eval(n.Hi).S
			}
			r := Val{T: xv.T, K: KSlice}
			r.Sl = [4]Term{xv.Sl[0], app("+", xv.Sl[1], lo), app("-", hi, lo), app("-", xv.Sl[3], lo)}
			return r
		case KArray:
			// an array that lives in the heap (array-typed field or *[N]T): the slice aliases its storage
			if at, ok := xv.T.Underlying().(*types.Array); ok && xv.Sl[0] != "" {
				n64 := num(at.Len())
				hi := Term(n64)
				if n.Hi != nil {
					hi = e.eval(n.Hi).S
				}
				r := Val{T: types.NewSlice(at.Elem()), K: KSlice}
				r.Sl = [4]Term{xv.Sl[0], lo, app("-", hi, lo), app("-", n64, lo)}
				return r
			}
		}
		sfail("slice expression on unsupported kind")
	case *EUn:
		xv := e.eval(n.X)
		switch n.Op {
		case "!":
			return boolVal(not(xv.S))
		case "-":
			r := Val{T: xv.T, K: KInt, S: app("-", xv.S)}
			if xv.C != nil {
				r.C = new(big.Int).Neg(xv.C)
				r.S = bigNum(r.C)
			}
			return r
		case "*":
			return e.deref(xv)
		}
		sfail("unsupported unary %s", n.Op)
	case *EBin:
		return e.evalBin(n)
	case *EQuant:
		if kc, ok := n.Lo.(*ECall); ok && kc.Fn == "keys" && n.Hi == nil {
			var parts []Term
			for _, kv := range e.knownKeys(kc) {
				b := e.with(n.Var, kv.v).eval(n.Body)
				if b.K != KBool {
					sfail("quantifier body is not boolean")
				}
				parts = append(parts, b.S)
			}
			if n.Forall {
				return boolVal(and(parts...))
			}
			return boolVal(or(parts...))
		}
		vc.counter++
		bv := fmt.Sprintf("q!%s!%d", sanitize(n.Var), vc.counter)
		inner := e.with(n.Var, mathInt(bv))
		rng := Term("true")
		if n.Lo != nil {
			lo := e.eval(n.Lo)
			hi := e.eval(n.Hi)
			rng = and(app("<=", lo.S, bv), app("<", bv, hi.S))
		}
		body := inner.eval(n.Body)
		if body.K != KBool {
			sfail("quantifier body is not boolean")
		}
		if n.Forall {
			return boolVal(fmt.Sprintf("(forall ((%s Int)) %s)", bv, implies(rng, body.S)))
		}
		return boolVal(fmt.Sprintf("(exists ((%s Int)) %s)", bv, and(rng, body.S)))
	case *ETypeAssert:
		xv := e.eval(n.X)
		t := e.lookupType(n.Type)
		if xv.K != KIface {
			sfail("type assertion on non-interface")
		}
		return vc.unboxIface(e.st, xv, t, true)
	case *ECall:
		return e.evalCall(n)
	}
	sfail("unsupported expression %T", x)
	return Val{}
}

func valsEqual(vc *VC, a, b Val) Term {
	if a.K == KPtr && b.K == KIface {
		a, b = b, a
	}
	switch a.K {
	case KFloat:
		return app("fp.eq", a.S, b.S)
	case KSlice:
		if b.K == KPtr { // nil
			return eq(a.Sl[0], "0")
		}
		return and(eq(a.Sl[0], b.Sl[0]), eq(a.Sl[1], b.Sl[1]), eq(a.Sl[2], b.Sl[2]), eq(a.Sl[3], b.Sl[3]))
	case KIface:
		if b.K == KPtr { // nil
			return eq(a.If[0], "0")
		}
		return and(eq(a.If[0], b.If[0]), eq(a.If[1], b.If[1]))
	case KStruct, KTuple:
		var cs []Term
		for i := range a.Fs {
			cs = append(cs, valsEqual(vc, a.Fs[i], b.Fs[i]))
		}
		return and(cs...)
	case KPtr:
		if b.K == KSlice {
			return eq(b.Sl[0], "0")
		}
		// pointers to fields / elements / globals are never nil (their construction already
		// carried the nil / bounds obligation)
		if a.S == "" && a.Loc != nil && b.S == "0" {
			return "false"
		}
		if b.S == "" && b.Loc != nil && a.S == "0" {
			return "false"
		}
		if a.S == "" && b.S == "" && a.Loc != nil && b.Loc != nil && a.Loc.Kind == b.Loc.Kind {
			switch a.Loc.Kind {
			case LElem:
				if types.Identical(a.Loc.T, b.Loc.T) {
					return and(eq(a.Loc.Base, b.Loc.Base), eq(a.Loc.Idx, b.Loc.Idx))
				}
				return "false"
			case LField:
				if types.Identical(a.Loc.ST, b.Loc.ST) && a.Loc.Field == b.Loc.Field {
					return eq(a.Loc.Base, b.Loc.Base)
				}
				return "false"
			}
		}
		// an object id and an interior address (or two interior addresses of different kinds)
		// are disjoint in the heap model
		if (a.S == "" && a.Loc != nil && b.S != "") || (b.S == "" && b.Loc != nil && a.S != "") {
			return "false"
		}
		if a.S == "" && b.S == "" && a.Loc != nil && b.Loc != nil && a.Loc.Kind != b.Loc.Kind {
			return "false"
		}
		if a.S == "" || b.S == "" {
			sfail("comparison of leaf pointers")
		}
		return eq(a.S, b.S)
	}
	return eq(a.S, b.S)
}

func (e *Env) evalBin(n *EBin) Val {
	vc := e.vc
	switch n.Op {
	case "&&", "||", "==>", "<==>":
		a := e.eval(n.X)
		b := e.eval(n.Y)
		if a.K != KBool || b.K != KBool {
			sfail("logical operator %s on non-boolean", n.Op)
		}
		switch n.Op {
		case "&&":
			return boolVal(and(a.S, b.S))
		case "||":
			return boolVal(or(a.S, b.S))
		case "==>":
			return boolVal(implies(a.S, b.S))
		default:
			return boolVal(eq(a.S, b.S))
		}
	}
	a := e.eval(n.X)
	b := e.eval(n.Y)
	// integer literals compared with floats are read as floats
	if a.K == KFloat && b.K == KInt && b.C != nil {
		f, _ := new(big.Float).SetInt(b.C).Float64()
		b = Val{T: a.T, K: KFloat, S: fpLit(f)}
	}
	if b.K == KFloat && a.K == KInt && a.C != nil {
		f, _ := new(big.Float).SetInt(a.C).Float64()
		a = Val{T: b.T, K: KFloat, S: fpLit(f)}
	}
	switch n.Op {
	case "==":
		return boolVal(valsEqual(vc, e.force(a), e.force(b)))
	case "!=":
		return boolVal(not(valsEqual(vc, e.force(a), e.force(b))))
	case "<", "<=", ">", ">=":
		if a.K == KFloat || b.K == KFloat {
			return boolVal(app(map[string]string{"<": "fp.lt", "<=": "fp.leq", ">": "fp.gt", ">=": "fp.geq"}[n.Op], a.S, b.S))
		}
		return boolVal(app(n.Op, a.S, b.S))
	}
	if a.K == KStr && n.Op == "+" {
		return Val{T: a.T, K: KStr, S: vc.strConcat(a.S, b.S)}
	}
	if a.K != KInt || b.K != KInt {
		sfail("arithmetic %s on non-integers", n.Op)
	}
	// specification arithmetic is mathematical
	am, bm := a, b
	am.T, bm.T = specInt, specInt
	r := vc.intBinop(n.Op, am, bm, specInt, nil)
	return r
}

// ghostLoc resolves ghost(name, key) to a location in the ghost component "name".
func (e *Env) ghostLoc(n *ECall) *Loc {
	if len(n.Args) != 2 {
		sfail("ghost(name, key)")
	}
	id, ok := n.Args[0].(*EIdent)
	if !ok {
		sfail("ghost: first argument must be a name")
	}
	k := e.eval(n.Args[1])
	var key Term
	switch k.K {
	case KIface:
		key = k.If[1]
	case KSlice:
		key = k.Sl[0]
	default:
		key = k.S
	}
	if key == "" {
		sfail("ghost: unsupported key")
	}
	return &Loc{Kind: LGhost, Glob: id.Name, Base: key, T: specInt}
}

func (e *Env) evalCall(n *ECall) Val {
	vc := e.vc
	arg := func(i int) Val {
		if i >= len(n.Args) {
			sfail("%s: missing argument %d", n.Fn, i)
		}
		return e.eval(n.Args[i])
	}
	switch n.Fn {
	case "len":
		x := arg(0)
		switch x.K {
		case KSlice:
			return mathInt(x.Sl[2])
		case KStr:
			vc.ensureStr()
			return mathInt(app("strlen", x.S))
		case KArray:
			return mathInt(num(x.T.Underlying().(*types.Array).Len()))
		case KMap:
			return mathInt(vc.mapLen(e.st, x))
		}
		sfail("len of unsupported kind")
	case "cap":
		x := arg(0)
		if x.K == KSlice {
			return mathInt(x.Sl[3])
		}
		sfail("cap of non-slice")
	case "arr":
		x := arg(0)
		if x.K == KSlice {
			return mathInt(x.Sl[0])
		}
		sfail("arr of non-slice")
	case "off":
		x := arg(0)
		if x.K == KSlice {
			return mathInt(x.Sl[1])
		}
		sfail("off of non-slice")
	case "old":
		if e.old == nil {
			sfail("old() not available here")
		}
		return e.inState(e.old).eval(n.Args[0])
	case "ite":
		c := arg(0)
		a := arg(1)
		b := arg(2)
		r := a
		switch a.K {
		case KSlice:
			for i := range r.Sl {
				r.Sl[i] = ite(c.S, a.Sl[i], b.Sl[i])
			}
		case KIface:
			r.If[0] = ite(c.S, a.If[0], b.If[0])
			r.If[1] = ite(c.S, a.If[1], b.If[1])
		default:
			r.S = ite(c.S, a.S, b.S)
			r.C = nil
			r.NZ = nil
		}
		return r
	case "min", "max":
		a := arg(0)
		b := arg(1)
		op := "<="
		if n.Fn == "max" {
			op = ">="
		}
		return mathInt(ite(app(op, a.S, b.S), a.S, b.S))
	case "int":
		a := arg(0)
		return mathInt(a.S)
	case "unchanged":
		// unchanged(b) / unchanged(b, lo, hi): contents of slice b equal to old state
		x := arg(0)
		if e.old == nil {
			sfail("unchanged() needs an old state")
		}
		if x.K != KSlice {
			// generic: value equal to old value
			ov := e.inState(e.old).eval(n.Args[0])
			return boolVal(valsEqual(vc, x, ov))
		}
		lo, hi := Term("0"), x.Sl[2]
		if len(n.Args) == 3 {
			lo, hi = arg(1).S, arg(2).S
		}
		et := x.T.Underlying().(*types.Slice).Elem()
		vc.counter++
		bv := fmt.Sprintf("q!u!%d", vc.counter)
		idx := mathInt(bv)
		cur := e.index(x, idx)
		old := e.inState(e.old).index(x, idx)
		_ = et
		body := valsEqual(vc, cur, old)
		if body == "true" {
			return boolVal("true")
		}
		return boolVal(fmt.Sprintf("(forall ((%s Int)) %s)", bv, implies(and(app("<=", lo, bv), app("<", bv, hi)), body)))
	case "zeroed":
		x := arg(0)
		lo, hi := arg(1).S, arg(2).S
		vc.counter++
		bv := fmt.Sprintf("q!z!%d", vc.counter)
		cur := e.index(x, mathInt(bv))
		return boolVal(fmt.Sprintf("(forall ((%s Int)) %s)", bv, implies(and(app("<=", lo, bv), app("<", bv, hi)), eq(cur.S, "0"))))
	case "fresh":
		x := arg(0)
		if e.old == nil {
			sfail("fresh() needs an old state")
		}
		switch x.K {
		case KPtr:
			return boolVal(and(app(">=", vc.rt(x.S), e.old.alloc), app(">", x.S, "0")))
		case KSlice:
			return boolVal(app(">=", x.Sl[0], e.old.alloc))
		case KIface:
			return boolVal(app(">=", vc.rt(x.If[1]), e.old.alloc))
		}
		sfail("fresh of unsupported kind")
	case "istype":
		x := arg(0)
		tl, ok := n.Args[1].(*ETypeLit)
		if !ok || x.K != KIface {
			sfail("istype(x, T) needs an interface value and a type")
		}
		t := e.lookupType(tl.Type)
		return boolVal(eq(x.If[0], vc.typeTag(t)))
	case "implements":
		x := arg(0)
		tl, ok := n.Args[1].(*ETypeLit)
		if !ok || x.K != KIface {
			sfail("implements(x, I)")
		}
		t := e.lookupType(tl.Type)
		return boolVal(vc.implementsTerm(x.If[0], t))
	case "tag":
		x := arg(0)
		return mathInt(x.If[0])
	case "isnil":
		x := arg(0)
		switch x.K {
		case KSlice:
			return boolVal(eq(x.Sl[0], "0"))
		case KIface:
			return boolVal(eq(x.If[0], "0"))
		}
		if x.K == KPtr && x.S == "" && x.Loc != nil {
			return boolVal("false")
		}
		return boolVal(eq(x.S, "0"))
	case "string":
		x := arg(0)
		if x.K == KSlice {
			return Val{T: types.Typ[types.String], K: KStr, S: vc.bytesToStr(e.st, x)}
		}
		if x.K == KStr {
			return x
		}
		sfail("string() of unsupported kind")
	case "disjoint":
		// disjoint(a, b): backing arrays differ (or one is nil)
		a, b := arg(0), arg(1)
		if a.K != KSlice || b.K != KSlice {
			sfail("disjoint needs slices")
		}
		return boolVal(not(eq(a.Sl[0], b.Sl[0])))
	case "xor8", "and8", "or8", "xor16", "and16", "or16":
		// exact bitwise operations on values known to fit in 8 / 16 bits
		a, b := arg(0), arg(1)
		bits := uint(8)
		if strings.HasSuffix(n.Fn, "16") {
			bits = 16
		}
		op := map[byte]string{'x': "^", 'a': "&", 'o': "|"}[n.Fn[0]]
		if op == "^" {
			return mathInt(vc.xorUF(a.S, b.S, bits))
		}
		return mathInt(bitwiseGeneral(op, a.S, b.S, bits))
	case "has":
		m := arg(0)
		k := arg(1)
		if m.K != KMap {
			sfail("has(m, k) needs a map")
		}
		if _, _, _, ok := vc.mapComps(m.T); !ok {
			sfail("map type %s unsupported", m.T)
		}
		if _, present, ok := vc.concreteLookup(m, k); ok && e.st != e.old {
			if present {
				return boolVal("true")
			}
			return boolVal("false")
		}
		return boolVal(and(not(eq(m.S, "0")), vc.mapHas(e.st, m, k)))
	case "called":
		// called(name, n): the execution considered reached the n-th call named `name`
		if len(n.Args) != 2 || vc.fn == nil || vc.callByName == nil {
			sfail("called(name, n)")
		}
		nm := ""
		switch a := n.Args[0].(type) {
		case *EIdent:
			nm = a.Name
		case *ESel:
			if pk, ok := a.X.(*EIdent); ok {
				nm = pk.Name + "." + a.Name
			}
		}
		kn, ok := n.Args[1].(*EInt)
		if nm == "" || !ok {
			sfail("called(name, n)")
		}
		in, found := vc.callByName[fmt.Sprintf("%s#%d", nm, kn.V.Int64())]
		if !found {
			sfail("called: no call %s#%d in %s", nm, kn.V.Int64(), vc.key)
		}
		if pc, reached := vc.callPC[in]; reached {
			return boolVal(pc)
		}
		return boolVal("false")
	case "deferred":
		// deferred(NAME): this execution registered a deferred call of the function/closure NAME
		// (NAME as in the last component of its key, e.g. clientHandshake$2)
		if len(n.Args) != 1 {
			sfail("deferred(NAME)")
		}
		id, ok := n.Args[0].(*EIdent)
		if !ok {
			sfail("deferred(NAME)")
		}
		if t, ok := vc.deferCF[id.Name]; ok {
			return boolVal(t)
		}
		return boolVal("false")
	case "atloop":
		// atloop(N, e): e evaluated in the state in which loop N was entered (before its first iteration)
		if len(n.Args) != 2 {
			sfail("atloop(N, e)")
		}
		kn, ok := n.Args[0].(*EInt)
		if !ok {
			sfail("atloop: N must be a literal")
		}
		ls := vc.loopEntry[int(kn.V.Int64())]
		if ls == nil {
			sfail("atloop: loop %d has not been entered at this point", kn.V.Int64())
		}
		return e.inState(ls).eval(n.Args[1])
	case "nocall":
		// nocall(name): the function contains no call named `name` at all (a static fact)
		if len(n.Args) != 1 || vc.fn == nil || vc.callByName == nil {
			sfail("nocall(name)")
		}
		nm := ""
		switch a := n.Args[0].(type) {
		case *EIdent:
			nm = a.Name
		case *ESel:
			if pk, ok := a.X.(*EIdent); ok {
				nm = pk.Name + "." + a.Name
			}
		}
		if nm == "" {
			sfail("nocall(name)")
		}
		if _, found := vc.callByName[nm+"#0"]; found {
			return boolVal("false")
		}
		return boolVal("true")
	case "callarg":
		// callarg(name, n, i): i-th argument (receiver first) of the n-th call named `name`
		if len(n.Args) != 3 || vc.fn == nil || vc.callByName == nil {
			sfail("callarg(name, n, i)")
		}
		nm := ""
		switch a := n.Args[0].(type) {
		case *EIdent:
			nm = a.Name
		case *ESel:
			if pk, ok := a.X.(*EIdent); ok {
				nm = pk.Name + "." + a.Name
			}
		}
		kn, ok1 := n.Args[1].(*EInt)
		ki, ok2 := n.Args[2].(*EInt)
		if nm == "" || !ok1 || !ok2 {
			sfail("callarg(name, n, i)")
		}
		in, found := vc.callByName[fmt.Sprintf("%s#%d", nm, kn.V.Int64())]
		if !found {
			sfail("callarg: no call %s#%d in %s", nm, kn.V.Int64(), vc.key)
		}
		cc := in.(*ssa.Call).Common()
		var ops []ssa.Value
		if cc.IsInvoke() {
			ops = append(ops, cc.Value)
		}
		ops = append(ops, cc.Args...)
		if int(ki.V.Int64()) >= len(ops) {
			sfail("callarg: call %s#%d has %d arguments", nm, kn.V.Int64(), len(ops))
		}
		op := ops[ki.V.Int64()]
		if _, isConst := op.(*ssa.Const); !isConst {
			if _, known := vc.vals[op]; !known {
				v := vc.freshValNoAssume(op.Type(), "notcalled.arg")
				vc.vals[op] = v
				return v
			}
		}
		v := vc.value(op)
		v.T = op.Type()
		return v
	case "callres":
		// callres(name, n): result of the n-th call named `name` in this function
		// callres(name, n, k): its k-th result when the call returns several
		if len(n.Args) != 2 && len(n.Args) != 3 {
			sfail("callres(name, n) or callres(name, n, k)")
		}
		id, ok := n.Args[0].(*EIdent)
		if !ok {
			if sl, isSel := n.Args[0].(*ESel); isSel {
				if pk, isId := sl.X.(*EIdent); isId {
					id, ok = &EIdent{pk.Name + "." + sl.Name}, true
				}
			}
		}
		if !ok {
			sfail("callres(name, n)")
		}
		k, ok := n.Args[1].(*EInt)
		if !ok {
			sfail("callres: n must be a literal")
		}
		if vc.fn == nil || vc.callByName == nil {
			sfail("callres is only available inside a function contract")
		}
		v, found := vc.callResult(id.Name, int(k.V.Int64()))
		if !found {
			sfail("callres: no call %s#%d in %s", id.Name, k.V.Int64(), vc.key)
		}
		if len(n.Args) == 3 {
			pk, ok := n.Args[2].(*EInt)
			if !ok {
				sfail("callres: k must be a literal")
			}
			pi := int(pk.V.Int64())
			if v.K != KStruct && v.K != KTuple || pi < 0 || pi >= len(v.Fs) {
				sfail("callres(%s, %d, %d): the call has no such result", id.Name, k.V.Int64(), pi)
			}
			return v.Fs[pi]
		}
		return v
	case "ghost":
		return e.pureLoadLoc(e.ghostLoc(n), specInt)
	case "val":
		x := arg(0)
		switch x.K {
		case KIface:
			return mathInt(x.If[1])
		case KPtr, KMap, KChan, KFunc:
			return mathInt(x.S)
		}
		sfail("val() of unsupported kind")
	case "allocated":
		x := arg(0)
		switch x.K {
		case KSlice:
			return boolVal(app("<", vc.rt(x.Sl[0]), e.st.alloc))
		case KIface:
			return boolVal(app("<", vc.rt(x.If[1]), e.st.alloc))
		}
		return boolVal(app("<", vc.rt(x.S), e.st.alloc))
	}
	if why, amb := vc.G.contracts.SpecAmbig[n.Fn]; amb {
		sfail("spec %s is %s: a file that does not define it cannot use it", n.Fn, why)
	}
	if sf, ok := vc.G.contracts.Specs[n.Fn]; ok {
		if len(sf.Params) != len(n.Args) {
			sfail("spec %s: wrong number of arguments", n.Fn)
		}
		if e.depth > 40 {
			sfail("spec %s: expansion too deep (recursive macros are not supported)", n.Fn)
		}
		inner := *e
		inner.depth++
		inner.vars = map[string]Val{}
		// spec functions see only their parameters (plus globals)
		inner.local = nil
		for i, p := range sf.Params {
			inner.vars[p] = e.eval(n.Args[i])
		}
		return inner.eval(sf.Body)
	}
	if uf, ok := vc.G.contracts.UFs[n.Fn]; ok {
		var ts []Term
		for i := range n.Args {
			ts = append(ts, arg(i).S)
		}
		vc.declareUF(uf)
		if uf.Ret == "Bool" {
			return boolVal(app(uf.Name, ts...))
		}
		if uf.Ret == "Str" {
			vc.ensureStr()
			return Val{T: types.Typ[types.String], K: KStr, S: app(uf.Name, ts...)}
		}
		return mathInt(app(uf.Name, ts...))
	}
	sfail("unknown function %s", n.Fn)
	return Val{}
}
