package main

// Slices whose elements are structs: an element is the object elp.T(arr, idx); its fields live
// in T's field heaps. append / make for such slices are modelled here.

import (
	"fmt"
	"go/types"

	"golang.org/x/tools/go/ssa"
)

// objPath describes how to recognise (and address) the sub-objects that make up the elements
// of one backing array: the element objects themselves and, recursively, their by-value
// struct fields.
type objPath struct {
	t      types.Type            // struct type of the objects on this path
	member func(o Term) Term     // o is such an object belonging to array `arr`
	index  func(o Term) Term     // element index of the element that (transitively) contains o
	at     func(arr, i Term) Term // the object on this path for element i of array arr
}

// elemPaths enumerates the element objects of a []et array and their nested struct fields.
func (vc *VC) elemPaths(et types.Type, arr Term) []objPath {
	ep := "elp." + sanitize(typeKey(et))
	vc.elemPtr(et, "0", "0") // declare
	kconst := fmt.Sprintf("(knd (%s 0 0))", ep)
	root := objPath{
		t: et,
		member: func(o Term) Term {
			return and(eq(app("knd", o), kconst), eq(app(ep+".inv1", o), arr), eq(app(ep, app(ep+".inv1", o), app(ep+".inv2", o)), o))
		},
		index: func(o Term) Term { return app(ep+".inv2", o) },
		at:    func(a, i Term) Term { return app(ep, a, i) },
	}
	out := []objPath{root}
	var rec func(p objPath)
	rec = func(p objPath) {
		s := structOf(p.t)
		for i := 0; i < s.NumFields(); i++ {
			ft := s.Field(i).Type()
			if kindOf(ft) != KStruct {
				continue
			}
			sub := "sub." + sanitize(typeKey(p.t)) + "." + s.Field(i).Name()
			vc.subPtr(p.t, i, "0") // declare
			ksub := fmt.Sprintf("(knd (%s 0))", sub)
			parent := p
			q := objPath{
				t: ft,
				member: func(o Term) Term {
					par := app(sub+".inv", o)
					return and(eq(app("knd", o), ksub), eq(app(sub, par), o), parent.member(par))
				},
				index: func(o Term) Term { return parent.index(app(sub+".inv", o)) },
				at:    func(a, i Term) Term { return app(sub, parent.at(a, i)) },
			}
			out = append(out, q)
			rec(q)
		}
	}
	rec(root)
	return out
}

// forEachLeafComp calls f for every (field location template, leaf) of struct type t that is
// stored directly in t's field heaps (non-struct, non-array fields).
func (vc *VC) forEachLeafComp(t types.Type, f func(name, srt string, lf Leaf)) bool {
	s := structOf(t)
	ok := true
	for i := 0; i < s.NumFields(); i++ {
		ft := s.Field(i).Type()
		switch kindOf(ft) {
		case KStruct:
			continue
		case KArray:
			ok = false
			continue
		}
		l := &Loc{Kind: LField, ST: t, Field: i, T: ft}
		for _, lf := range leavesOf(ft) {
			name, srt := vc.regComp(l, lf)
			f(name, srt, lf)
		}
	}
	return ok
}

// zeroStructElemsDeep zeroes all fields of all elements of a fresh array.
func (vc *VC) zeroStructElemsDeep(st *State, et types.Type, arr Term) {
	arr = vc.patAtom(arr, "Int")
	for _, p := range vc.elemPaths(et, arr) {
		p := p
		okk := vc.forEachLeafComp(p.t, func(name, srt string, lf Leaf) {
			h := vc.heapGet(st, name, srt)
			nh := vc.heapHavoc(st, name)
			z := zeroOfSort(lf.Sort, vc)
			vc.axiom(fmt.Sprintf("(forall ((o Int)) (! (= (select %s o) (ite %s %s (select %s o))) :pattern ((select %s o))))",
				nh, p.member("o"), z, h, nh))
		})
		if !okk {
			// array-typed fields are sub-objects sub.T.f(o) whose elements live in elems:E
			s := structOf(p.t)
			for i := 0; i < s.NumFields(); i++ {
				ft := s.Field(i).Type()
				if kindOf(ft) != KArray {
					continue
				}
				if k := kindOf(ft.Underlying().(*types.Array).Elem()); k == KStruct || k == KSlice || k == KIface || k == KArray {
					vc.unsupportedf("make of slice of structs with an array field of composite elements")
					continue
				}
				name, srt, aet := vc.arrayComp(ft)
				sub := "sub." + sanitize(typeKey(p.t)) + "." + s.Field(i).Name()
				vc.subPtr(p.t, i, "0") // declare
				ksub := fmt.Sprintf("(knd (%s 0))", sub)
				h := vc.heapGet(st, name, srt)
				nh := vc.heapHavoc(st, name)
				z := zeroOfSort("(Array Int "+sortOfKind(kindOf(aet))+")", vc)
				par := app(sub+".inv", "o")
				mem := and(eq(app("knd", "o"), ksub), eq(app(sub, par), "o"), p.member(par))
				vc.axiom(fmt.Sprintf("(forall ((o Int)) (! (= (select %s o) (ite %s %s (select %s o))) :pattern ((select %s o))))",
					nh, mem, z, h, nh))
			}
		}
	}
}

// appendStructsImpl models append(s, src...) where the elements are structs and src has a
// small constant length.
func (vc *VC) appendStructsImpl(st *State, c *ssa.CallCommon, args []Val, rt types.Type, et types.Type) Val {
	s := args[0]
	if s.K != KSlice {
		s = vc.zeroVal(rt)
	}
	if kindOf(et) != KStruct {
		vc.unsupportedf("append to slice of arrays")
		return vc.opaqueResult(st, rt, "append")
	}
	src := args[1]
	if src.K != KSlice {
		return s
	}
	n := src.Sl[2]
	if !(isNumeral(n) && len(n) == 1) {
		return vc.appendStructsGeneral(st, c, s, src, rt, et)
	}
	small := int(n[0] - '0')
	newLen := vc.define("applen", "Int", app("+", s.Sl[2], n))
	fits := vc.define("appfits", "Bool", app("<=", newLen, s.Sl[3]))
	freshArr := vc.patAtom(vc.allocID(st), "Int")
	ncap := vc.fresh("appcap")
	vc.declare(ncap, "Int")
	vc.assume(st, and(app("<=", newLen, ncap), app("<=", ncap, bigNum(pow2(maxLenBits)))))
	rArr := vc.define("apparr", "Int", ite(fits, s.Sl[0], freshArr))
	rOff := vc.define("appoff", "Int", ite(fits, s.Sl[1], "0"))
	rCap := vc.define("appcap", "Int", ite(fits, s.Sl[3], ncap))
	res := Val{T: rt, K: KSlice, Sl: [4]Term{rArr, rOff, newLen, rCap}}
	for _, p := range vc.elemPaths(et, freshArr) {
		p := p
		okk := vc.forEachLeafComp(p.t, func(name, srt string, lf Leaf) {
			h := vc.heapGet(st, name, srt)
			// moved version: elements 0..len of the fresh array are copies of the old elements
			mv := vc.fresh("H." + name + ".mv")
			vc.declare(mv, srt)
			idx := p.index("o")
			vc.axiom(fmt.Sprintf("(forall ((o Int)) (! (= (select %s o) (ite (and %s (<= 0 %s) (< %s %s)) (select %s %s) (select %s o))) :pattern ((select %s o))))",
				mv, p.member("o"), idx, idx, s.Sl[2], h, p.at(s.Sl[0], vc.ix(s.Sl[1], idx)), h, mv))
			inPlace := Term(h)
			moved := Term(mv)
			for j := 0; j < small; j++ {
				x := sel(h, p.at(src.Sl[0], vc.ix(src.Sl[1], num(int64(j)))))
				inPlace = store(inPlace, p.at(s.Sl[0], vc.ix(s.Sl[1], app("+", s.Sl[2], num(int64(j))))), x)
				moved = store(moved, p.at(freshArr, app("+", s.Sl[2], num(int64(j)))), x)
			}
			vc.heapSet(st, name, srt, ite(fits, inPlace, moved))
		})
		if !okk {
			vc.unsupportedf("append to slice of structs with array-typed field")
		}
	}
	return res
}
