package main

// Native model of math/rand's Shuffle(n, swap) / (*Rand).Shuffle(n, swap) for a swap closure of
// the function under contract (part of the trusted base; listed in the evidence when used).
//
// Shuffle calls swap(i, j) an unknown number of times with 0 <= i, j < n. The closure is verified
// against its own contract like any other function; here only its contract is used, as for a
// loop whose body is the closure:
//   * the closure's `modifies` clause must not mention its parameters (it bounds every call);
//   * its `ensures` clauses whose tag starts with `inv` (and mention neither the parameters nor
//     old()) are the loop invariant: each is an obligation in the state before Shuffle
//     (establishment), and is assumed in the state after it;
//   * the state after Shuffle is the state before with the closure's modifies targets havocked;
//     the closure's `requires` are obligations in that state (plus the invariant) for arbitrary
//     i, j in range -- every intermediate state is an instance of it, so each call is admissible
//     and re-establishes the invariant (the closure's own proof).
// The random source may be consumed: ghostall(rdpos) is havocked.

import (
	"fmt"
	"go/types"
	"strings"

	"golang.org/x/tools/go/ssa"
)

func mentionsIdent(x Expr, names map[string]bool) bool {
	found := false
	var walk func(e Expr)
	walk = func(e Expr) {
		if found || e == nil {
			return
		}
		switch n := e.(type) {
		case *EIdent:
			if names[n.Name] {
				found = true
			}
		case *ECall:
			if names["@"+n.Fn] {
				found = true
				return
			}
			for _, a := range n.Args {
				walk(a)
			}
		case *EUn:
			walk(n.X)
		case *EBin:
			walk(n.X)
			walk(n.Y)
		case *ESel:
			walk(n.X)
		case *EIndex:
			walk(n.X)
			walk(n.I)
		case *ESlice:
			walk(n.X)
			walk(n.Lo)
			walk(n.Hi)
		case *EQuant:
			walk(n.Lo)
			walk(n.Hi)
			walk(n.Body)
		case *ETypeAssert:
			walk(n.X)
		}
	}
	walk(x)
	return found
}

func isRandShuffle(fn *ssa.Function) bool {
	if fn == nil || fn.Pkg == nil || fn.Name() != "Shuffle" {
		return false
	}
	p := fn.Pkg.Pkg.Path()
	return p == "math/rand" || p == "math/rand/v2"
}

func (vc *VC) nativeShuffle(st *State, fn *ssa.Function, args []Val) (Val, bool) {
	if len(args) < 2 {
		return Val{}, false
	}
	nV, fV := args[len(args)-2], args[len(args)-1]
	cl, ok := vc.closures[fV.S]
	if !ok || fV.S == "" || len(cl.fn.Params) != 2 {
		return Val{}, false
	}
	ct := vc.lookupContract(cl.fn)
	if ct == nil || !ct.HasMod {
		return Val{}, false
	}
	params := map[string]bool{cl.fn.Params[0].Name(): true, cl.fn.Params[1].Name(): true, "$0": true, "$1": true}
	for _, m := range ct.Modifies {
		if mentionsIdent(m.E, params) {
			return Val{}, false
		}
	}
	// lets may depend on the parameters; then clauses using them do as well
	dep := map[string]bool{}
	for k := range params {
		dep[k] = true
	}
	dep["@old"] = true
	for _, l := range ct.Lets {
		if mentionsIdent(l.E, dep) {
			dep[l.Name] = true
		}
	}
	var invs []Clause
	for _, en := range ct.Ensures {
		if strings.HasPrefix(en.Tag, "inv") && !mentionsIdent(en.E, dep) {
			invs = append(invs, en)
		}
	}
	key := funcKey(cl.fn)
	site := vc.nextOrdinal("shuffle:" + key)
	n := nV.S
	vc.oblige(st, "pre", fmt.Sprintf("Shuffle.n#%d", site), app("<=", "0", n), "Shuffle panics for n < 0")
	var rng []Term
	mkEnv := func(s *State) *Env {
		env := &Env{vc: vc, st: s, vars: map[string]Val{}, pkg: fnPackage(cl.fn)}
		vc.counter++
		rng = nil
		for k, p := range cl.fn.Params {
			c := vc.fresh("shuf." + p.Name())
			vc.declare(c, "Int")
			rng = append(rng, app("<=", "0", c), app("<", c, n))
			v := mathInt(c)
			v.T = p.Type()
			env.vars[p.Name()] = v
			env.vars[fmt.Sprintf("$%d", k)] = v
		}
		for i, fv := range cl.fn.FreeVars {
			if i < len(cl.bindings) {
				env.vars[fv.Name()] = cl.bindings[i]
			}
		}
		for _, l := range ct.Lets {
			v, err := env.EvalVal(l.E)
			if err != nil {
				sfail("Shuffle: closure %s: let %s: %v", key, l.Name, err)
			}
			env.vars[l.Name] = v
		}
		return env
	}
	// establishment
	pre := st.clone()
	envPre := mkEnv(pre)
	for _, en := range invs {
		t, err := envPre.EvalBool(en.E)
		if err != nil {
			sfail("Shuffle: closure %s: ensures %q: %v", key, en.Src, err)
		}
		vc.oblige(st, "pre", fmt.Sprintf("Shuffle.%s.established#%d", en.Tag, site), t, "invariant of the swap closure holds before Shuffle: "+en.Src)
	}
	// effects: only if some call can happen
	post := st.clone()
	if !ct.Pure {
		na := vc.fresh("alloc")
		vc.declare(na, "Int")
		vc.assume(post, app("<=", post.alloc, na))
		post.alloc = na
	}
	envMod := mkEnv(post)
	for _, m := range ct.Modifies {
		vc.havocModLoc(post, envMod, m, key)
	}
	vc.havocTarget(post, modTarget{ghostAll: "ghost:rdpos"})
	envPost := mkEnv(post)
	for _, en := range invs {
		t, err := envPost.EvalBool(en.E)
		if err != nil {
			sfail("Shuffle: closure %s: ensures %q: %v", key, en.Src, err)
		}
		vc.assume(post, t)
	}
	for i, r := range ct.Requires {
		t, err := envPost.EvalBool(r.E)
		if err != nil {
			sfail("Shuffle: closure %s: requires %q: %v", key, r.Src, err)
		}
		tag := r.Tag
		if tag == "" {
			tag = fmt.Sprint(i)
		}
		vc.oblige(post, "pre", fmt.Sprintf("Shuffle.%s.%s#%d", shortKey(key), tag, site), implies(and(rng...), t), "precondition of the swap closure in any state Shuffle can reach: "+r.Src)
	}
	*st = *post
	vc.trustedUsed["native model: math/rand Shuffle as a loop over the verified contract of closure "+key] = true
	return Val{K: KUnit}, true
}

var _ types.Type
